package main

import (
	"bytes"
	"context"
	"encoding/binary"
	"encoding/hex"
	"encoding/json"
	"errors"
	"fmt"
	"hash/crc64"
	"io"
	"os"
	"path/filepath"
	"sort"
	"strconv"
	"strings"
	"time"

	"github.com/superfly/litefs"
	"github.com/superfly/ltx"
)

// engineImpl drives one real litefs.Store + one database ("db") through the DB API
// (the methods the FUSE nodes call), without a mount.
type engineImpl struct {
	c     *Ctx
	dir   string
	store *litefs.Store
	db    *litefs.DB
	role  string
	exit  int // recorded Store.Exit code (0 = none)

	dbf, jf, wf, sf *os.File
	mount           *mountImpl // non-nil (suite flag "mount"): application-side operations go through the FUSE handlers
	client          *fakeClient

	bg        *bgOp  // Export / snapshot running in a second goroutine
	bgResult  string // result of a background op that finished while an application op ran
	hooked    *litefs.DB
	exitSnap  string                       // copy of the data directory taken when Store.Exit was called
	held      *litefs.GuardSet             // internal write lock held by the `whold` op
	abandoned []abandonedStore             // stores of "dead" processes (crash restarts)
	configure func(st *litefs.Store) error // cluster nodes: own leaser / client / HTTP server

	// crash window
	crashing   bool
	inSnap     bool
	snaps      []crashSnap
	opCount    int
	commitSnap int // number of snapshots taken when the transaction's commit call had returned (-1: none)
}

type abandonedStore struct {
	store *litefs.Store
	dir   string
}

var crcTable = crc64.MakeTable(crc64.ISO)

func pageChk(pgno uint32, data []byte) uint64 {
	h := crc64.New(crcTable)
	var b [4]byte
	binary.BigEndian.PutUint32(b[:], pgno)
	h.Write(b[:])
	h.Write(data)
	return h.Sum64() | 1<<63
}

// fakeClient is the Client of a node that never reaches a primary: Stream blocks until
// the context ends; halt-lock / commit calls fail unless scripted.
type fakeClient struct {
	commitFn func(name string, lockID int64, data []byte) error
}

type blockingStream struct{ ctx context.Context }

func (s *blockingStream) Read(p []byte) (int, error) { <-s.ctx.Done(); return 0, io.EOF }
func (s *blockingStream) Close() error               { return nil }
func (s *blockingStream) ClusterID() string          { return "" }

func (c *fakeClient) AcquireHaltLock(ctx context.Context, primaryURL string, nodeID uint64, name string, lockID int64) (*litefs.HaltLock, error) {
	return nil, errors.New("fake client: no primary")
}
func (c *fakeClient) ReleaseHaltLock(ctx context.Context, primaryURL string, nodeID uint64, name string, lockID int64) error {
	return nil
}
func (c *fakeClient) Commit(ctx context.Context, primaryURL string, nodeID uint64, name string, lockID int64, r io.Reader) error {
	b, err := io.ReadAll(r)
	if err != nil {
		return err
	}
	if c.commitFn != nil {
		return c.commitFn(name, lockID, b)
	}
	return errors.New("fake client: no primary")
}
func (c *fakeClient) Stream(ctx context.Context, primaryURL string, nodeID uint64, posMap map[string]ltx.Pos, filter []string) (litefs.Stream, error) {
	return &blockingStream{ctx: ctx}, nil
}

func (m *engineImpl) Close() {
	if m.bg != nil {
		m.bgResume()
		if m.bg != nil {
			select {
			case <-m.bg.done:
			case <-time.After(5 * time.Second):
			}
			m.bg = nil
		}
		bgCur.Store(nil)
	}
	m.crashing = false
	crashMu.Lock()
	if crashActive == m {
		crashActive = nil
	}
	crashMu.Unlock()
	m.dropSnaps()
	m.closeFiles()
	// Remove the data files BEFORE closing: Store.Close runs a recovery on every database in a
	// background goroutine, and a panic there (possible with planted files) would kill the harness.
	if m.dir != "" {
		_ = os.RemoveAll(filepath.Join(m.dir, "data", "dbs"))
	}
	for _, a := range m.abandoned {
		_ = os.RemoveAll(filepath.Join(a.dir, "data", "dbs"))
		for _, db := range a.store.DBs() { // a dead process holds no application locks
			for owner := uint64(1); owner <= 12; owner++ {
				if gs := db.GuardSet(owner); gs != nil {
					gs.Unlock()
				}
			}
		}
		_ = a.store.Close()
		_ = os.RemoveAll(a.dir)
	}
	m.abandoned = nil
	if m.exitSnap != "" {
		_ = os.RemoveAll(m.exitSnap)
	}
	if m.store != nil {
		_ = m.store.Close()
		m.store = nil
	}
	if m.dir != "" {
		_ = os.RemoveAll(m.dir)
	}
}

func (m *engineImpl) closeFiles() {
	if m.mount != nil {
		m.mount.forget()
	}
	for _, f := range []**os.File{&m.dbf, &m.jf, &m.wf, &m.sf} {
		if *f != nil {
			_ = (*f).Close()
			*f = nil
		}
	}
}

var fixedNow = time.UnixMilli(1700000000000).UTC()

func (m *engineImpl) openStore(role string) error {
	if m.dir == "" {
		d, err := os.MkdirTemp(os.Getenv("VERIF_SCRATCH"), "verif-eng-")
		if err != nil {
			return err
		}
		m.dir = d
	}
	m.role = role
	st := litefs.NewStore(filepath.Join(m.dir, "data"), role == "primary")
	st.Leaser = litefs.NewStaticLeaser(role == "primary", "localhost", "http://127.0.0.1:1")
	m.client = &fakeClient{}
	st.Client = m.client
	st.RetentionMonitorInterval = 0
	st.HaltLockMonitorInterval = time.Hour
	st.ReconnectDelay = time.Hour
	st.DemoteDelay = time.Hour
	st.Exit = func(code int) {
		if m.exit == 0 {
			m.exit = code
			// the real process dies here: keep what it leaves behind for a later `reopen`
			if d, err := os.MkdirTemp(os.Getenv("VERIF_SCRATCH"), "verif-exit-"); err == nil {
				if copyTree(filepath.Join(m.dir, "data"), filepath.Join(d, "data")) == nil {
					m.exitSnap = d
				} else {
					_ = os.RemoveAll(d)
				}
			}
		}
	}
	st.Compress = m.c != nil && m.c.Flag("lz4")
	st.OS = &crashOS{m: m}
	m.mount = nil
	if m.c != nil && m.c.Flag("mount") {
		// application-side operations go through the FUSE layer's handlers (harness/mount.go)
		mt, err := newMount(st)
		if err != nil {
			return err
		}
		m.mount = mt
	}
	if m.configure != nil {
		if err := m.configure(st); err != nil {
			return err
		}
	}
	if err := st.Open(); err != nil {
		return err
	}
	m.store = st
	if m.configure != nil {
		// cluster node: roles are decided by the lease service, `sync` waits for them
	} else if role == "primary" {
		select {
		case <-st.ReadyCh():
		case <-time.After(5 * time.Second):
			return errors.New("store not ready")
		}
	} else {
		// wait until the lease monitor has recorded the (static) primary info
		for i := 0; i < 500; i++ {
			if isP, info := st.PrimaryInfo(); !isP && info != nil {
				break
			}
			time.Sleep(time.Millisecond)
		}
	}
	m.db = st.DB("db")
	if m.db != nil {
		m.db.Now = func() time.Time { return fixedNow }
	}
	return nil
}

func errStr(err error) string {
	switch {
	case err == nil:
		return "ok"
	case errors.Is(err, litefs.ErrReadOnlyReplica):
		return "readonly"
	case errors.Is(err, litefs.ErrDatabaseExists):
		return "exists"
	case errors.Is(err, litefs.ErrDatabaseNotFound):
		return "notfound"
	case errors.Is(err, os.ErrNotExist):
		return "enoent"
	case errors.Is(err, os.ErrExist):
		return "eexist"
	case errors.Is(err, context.DeadlineExceeded):
		return "busy"
	}
	return "err"
}

var lockNames = map[string]litefs.LockType{
	"PENDING": litefs.LockTypePending, "RESERVED": litefs.LockTypeReserved, "SHARED": litefs.LockTypeShared,
	"WRITE": litefs.LockTypeWrite, "CKPT": litefs.LockTypeCkpt, "RECOVER": litefs.LockTypeRecover,
	"READ0": litefs.LockTypeRead0, "READ1": litefs.LockTypeRead1, "READ2": litefs.LockTypeRead2,
	"READ3": litefs.LockTypeRead3, "READ4": litefs.LockTypeRead4, "DMS": litefs.LockTypeDMS,
}

func parseLocks(s string) ([]litefs.LockType, bool) {
	var out []litefs.LockType
	for _, p := range strings.Split(s, ",") {
		t, ok := lockNames[p]
		if !ok {
			return nil, false
		}
		out = append(out, t)
	}
	return out, true
}

// bytesOf parses a data token: parts joined by '+': hex | "-" | g<seed>x<len> | z<len> (zeros).
func bytesOf(s string) ([]byte, bool) {
	var out []byte
	for _, p := range strings.Split(s, "+") {
		switch {
		case p == "-" || p == "":
		case p[0] == 'z':
			n, err := strconv.Atoi(p[1:])
			if err != nil || n < 0 || n > 1<<26 {
				return nil, false
			}
			out = append(out, make([]byte, n)...)
		case p[0] == 'g':
			b, ok := untok(p)
			if !ok {
				return nil, false
			}
			out = append(out, b...)
		default:
			b, err := hex.DecodeString(p)
			if err != nil {
				return nil, false
			}
			out = append(out, b...)
		}
	}
	return out, true
}

func (m *engineImpl) need() bool { return m.store != nil && m.db != nil && m.exit == 0 }

func (m *engineImpl) Do(line string) string {
	obs := m.do1(line)
	if !strings.HasPrefix(line, "bg-") {
		obs = m.bgAfterOp(obs)
	}
	return obs
}

func (m *engineImpl) do1(line string) string {
	f := strings.Fields(line)
	if len(f) == 0 {
		return "bad-op"
	}
	ctx := context.Background()
	if m.exit != 0 && f[0] != "state" && f[0] != "ltx" && f[0] != "raw" && f[0] != "crash-end" && f[0] != "crashpoint" && f[0] != "reopen" {
		return "exited"
	}
	atoi := func(s string) (int64, bool) { v, err := strconv.ParseInt(s, 10, 64); return v, err == nil }
	m.opCount++
	if m.crashing && f[0] != "crash-end" && f[0] != "commit-point" {
		m.snapshot("op:" + f[0]) // boundary before each operation of the transaction
	}
	if m.mount != nil {
		if obs, handled := m.mount.do(m, ctx, f); handled {
			if m.c != nil {
				m.c.Count("mount." + f[0])
			}
			return obs
		}
	}
	switch f[0] {
	case "crash-begin": // open a crash window: every OS call / page write from now on is a crash point
		if m.store == nil || m.crashing {
			return "bad-op"
		}
		m.dropSnaps()
		m.crashing, m.commitSnap = true, -1
		crashMu.Lock()
		crashActive = m
		crashMu.Unlock()
		return "ok"
	case "commit-point": // the call that commits the transaction has just returned to SQLite
		if !m.crashing {
			return "bad-op"
		}
		m.commitSnap = len(m.snaps)
		return "ok"
	case "crash-end":
		if !m.crashing {
			return "bad-op"
		}
		m.snapshot("op:end")
		m.crashing = false
		crashMu.Lock()
		crashActive = nil
		crashMu.Unlock()
		return fmt.Sprintf("n=%d", len(m.snaps))
	case "crashpoint":
		if len(f) != 2 {
			return "bad-op"
		}
		k, ok := atoi(f[1])
		if !ok {
			return "bad-op"
		}
		return m.crashpoint(int(k))
	case "open": // open primary|replica
		if len(f) != 2 || m.store != nil {
			return "bad-op"
		}
		if err := m.openStore(f[1]); err != nil {
			return "err " + oneLine(err.Error())
		}
		return "ok"
	case "createdb":
		if m.store == nil {
			return "bad-op"
		}
		db, fh, err := m.store.CreateDB("db")
		if err != nil {
			return errStr(err)
		}
		m.db = db
		m.db.Now = func() time.Time { return fixedNow }
		if m.dbf != nil {
			_ = m.dbf.Close()
		}
		m.dbf = fh
		return "ok"
	case "shmclose", "dbclose": // <owner>: the handle's Flush — UnlockSHM / UnlockDatabase
		if len(f) != 2 || !m.need() {
			return "bad-op"
		}
		owner, ok1 := atoi(f[1])
		if !ok1 {
			return "bad-op"
		}
		if f[0] == "shmclose" {
			m.db.UnlockSHM(ctx, uint64(owner))
		} else {
			m.db.UnlockDatabase(ctx, uint64(owner))
		}
		return m.withExit("ok")
	case "lock", "rlock", "unlock", "canlock", "canrlock":
		if len(f) != 3 || !m.need() {
			return "bad-op"
		}
		owner, ok1 := atoi(f[1])
		types, ok2 := parseLocks(f[2])
		if !ok1 || !ok2 {
			return "bad-op"
		}
		switch f[0] {
		case "lock":
			ok, err := m.db.TryLocks(ctx, uint64(owner), types)
			if err != nil {
				return "err"
			}
			return fmt.Sprint(ok)
		case "rlock":
			return fmt.Sprint(m.db.TryRLocks(ctx, uint64(owner), types))
		case "canlock":
			ok, st := m.db.CanLock(ctx, uint64(owner), types)
			return fmt.Sprintf("%v %s", ok, st)
		case "canrlock":
			return fmt.Sprint(m.db.CanRLock(ctx, uint64(owner), types))
		default:
			err := m.db.Unlock(ctx, uint64(owner), types)
			return m.withExit(errStr(err))
		}
	case "dbw": // dbw <offset> <data>
		if len(f) != 3 || !m.need() {
			return "bad-op"
		}
		off, ok1 := atoi(f[1])
		data, ok2 := bytesOf(f[2])
		if !ok1 || !ok2 {
			return "bad-op"
		}
		if m.dbf == nil {
			fh, err := m.db.OpenDatabase(ctx)
			if err != nil {
				return errStr(err)
			}
			m.dbf = fh
		}
		return errStr(m.db.WriteDatabaseAt(ctx, m.dbf, data, off, 1))
	case "dbt": // dbt <size>
		if len(f) != 2 || !m.need() {
			return "bad-op"
		}
		sz, ok := atoi(f[1])
		if !ok {
			return "bad-op"
		}
		return errStr(m.db.TruncateDatabase(ctx, sz))
	case "jc":
		if !m.need() {
			return "bad-op"
		}
		// SQLite creates the journal only when it has no journal file open: whatever handle the
		// simulated connection still had (a journal LiteFS removed behind its back) is closed first
		if m.jf != nil {
			_ = m.jf.Close()
			m.jf = nil
		}
		fh, err := m.db.CreateJournal()
		if err != nil {
			return errStr(err)
		}
		m.jf = fh
		return "ok"
	case "jw": // jw <offset> <data>
		if len(f) != 3 || !m.need() {
			return "bad-op"
		}
		off, ok1 := atoi(f[1])
		data, ok2 := bytesOf(f[2])
		if !ok1 || !ok2 {
			return "bad-op"
		}
		if m.jf == nil {
			fh, err := m.db.OpenJournal(ctx)
			if err != nil {
				return errStr(err)
			}
			m.jf = fh
		}
		return m.withExit(errStr(m.db.WriteJournalAt(ctx, m.jf, data, off, 1)))
	case "jrm":
		if !m.need() {
			return "bad-op"
		}
		err := m.db.RemoveJournal(ctx)
		if err == nil && m.jf != nil {
			_ = m.jf.Close()
			m.jf = nil
		}
		return m.withExit(errStr(err))
	case "jtr":
		if !m.need() {
			return "bad-op"
		}
		return m.withExit(errStr(m.db.TruncateJournal(ctx)))
	case "wc":
		if !m.need() {
			return "bad-op"
		}
		if m.wf != nil { // as for the journal: created only when the connection has no WAL file open
			_ = m.wf.Close()
			m.wf = nil
		}
		fh, err := m.db.CreateWAL()
		if err != nil {
			return errStr(err)
		}
		m.wf = fh
		return "ok"
	case "ww": // ww <offset> <data>
		if len(f) != 3 || !m.need() {
			return "bad-op"
		}
		off, ok1 := atoi(f[1])
		data, ok2 := bytesOf(f[2])
		if !ok1 || !ok2 {
			return "bad-op"
		}
		if m.wf == nil {
			fh, err := m.db.OpenWAL(ctx)
			if err != nil {
				return errStr(err)
			}
			m.wf = fh
		}
		return errStr(m.db.WriteWALAt(ctx, m.wf, data, off, 1))
	case "wt":
		if len(f) != 2 || !m.need() {
			return "bad-op"
		}
		sz, ok := atoi(f[1])
		if !ok {
			return "bad-op"
		}
		return errStr(m.db.TruncateWAL(ctx, sz))
	case "wrm":
		if !m.need() {
			return "bad-op"
		}
		err := m.db.RemoveWAL(ctx)
		if err == nil && m.wf != nil {
			_ = m.wf.Close()
			m.wf = nil
		}
		return errStr(err)
	case "drop":
		if !m.need() {
			return "bad-op"
		}
		if !m.store.IsPrimary() { // the mount's gate in RootNode.Remove
			return "readonly"
		}
		m.closeFiles()
		return m.withExit(errStr(m.db.Drop(ctx)))
	case "ckpt":
		if !m.need() {
			return "bad-op"
		}
		tctx, cancel := context.WithTimeout(ctx, 150*time.Millisecond)
		defer cancel()
		return m.withExit(errStr(m.db.Checkpoint(tctx)))
	case "state":
		return m.state()
	case "ltx":
		return m.ltxListing()
	case "raw":
		return m.rawChecksum()
	case "export":
		if !m.need() {
			return "bad-op"
		}
		var buf bytes.Buffer
		tctx, cancel := context.WithTimeout(ctx, 150*time.Millisecond)
		defer cancel()
		pos, err := m.db.Export(tctx, &buf)
		if err != nil {
			return errStr(err)
		}
		return fmt.Sprintf("ok pos=%d:%016x img=%s", uint64(pos.TXID), uint64(pos.PostApplyChecksum), imageDigest(buf.Bytes(), pageSizeOf(buf.Bytes())))
	case "snapshot":
		if !m.need() {
			return "bad-op"
		}
		var buf bytes.Buffer
		tctx, cancel := context.WithTimeout(ctx, 150*time.Millisecond)
		defer cancel()
		hdr, trl, err := m.db.WriteSnapshotTo(tctx, &buf)
		if err != nil {
			return errStr(err)
		}
		d, derr := decodeLTX(buf.Bytes(), true)
		if derr != nil {
			return "err undecodable-snapshot"
		}
		_ = hdr
		_ = trl
		return "ok " + d
	case "sapplyx", "txapplyx": // <permille> <ltxspec>: the same file with one byte of its page data flipped
		if len(f) < 9 || m.store == nil || m.exit != 0 { // at least one page
			return "bad-op"
		}
		pm, ok0 := atoi(f[1])
		b, ok := buildLTX(f[2:], m.store.Compress)
		if !ok || !ok0 || pm < 0 || pm > 999 || len(b) < 100+16+8 {
			return "bad-op"
		}
		b[100+int(pm)*(len(b)-116)/1000] ^= 0x20
		if f[0] == "sapplyx" {
			tctx, cancel := context.WithTimeout(ctx, 150*time.Millisecond)
			defer cancel()
			err := m.store.VerifProcessLTXStreamFrame(tctx, &litefs.LTXStreamFrame{Name: "db"}, bytes.NewReader(b))
			if m.db == nil {
				if m.db = m.store.DB("db"); m.db != nil {
					m.db.Now = func() time.Time { return fixedNow }
				}
			}
			switch {
			case err == nil:
				return m.withExit("ok")
			case errors.Is(err, context.DeadlineExceeded):
				return "busy"
			case strings.Contains(err.Error(), "apply ltx"):
				return m.withExit("apply-failed")
			default:
				return m.withExit("rejected")
			}
		}
		if m.db == nil {
			return "notfound"
		}
		path, err := m.db.WriteLTXFileAt(ctx, bytes.NewReader(b))
		if err != nil {
			return m.withExit("rejected")
		}
		if err := m.db.ApplyLTXNoLock(path, true); err != nil {
			return m.withExit("apply-failed")
		}
		return m.withExit("ok")
	case "sapply", "txapply": // <ltxspec>: min max pre post commit ps [pgno=data ...]
		// sapply: the replication-stream path (Store.processLTXStreamFrame, creates the database if needed)
		// txapply: the forwarding endpoint's path (WriteLTXFileAt + ApplyLTXNoLock, as handlePostTx)
		if len(f) < 2 || m.store == nil || m.exit != 0 {
			return "bad-op"
		}
		b, ok := buildLTX(f[1:], m.store.Compress)
		if !ok {
			return "bad-op"
		}
		if f[0] == "sapply" {
			tctx, cancel := context.WithTimeout(ctx, 150*time.Millisecond)
			defer cancel()
			err := m.store.VerifProcessLTXStreamFrame(tctx, &litefs.LTXStreamFrame{Name: "db"}, bytes.NewReader(b))
			if m.db == nil {
				if m.db = m.store.DB("db"); m.db != nil {
					m.db.Now = func() time.Time { return fixedNow }
				}
			}
			switch {
			case err == nil:
				return m.withExit("ok")
			case errors.Is(err, context.DeadlineExceeded):
				return "busy"
			case strings.Contains(err.Error(), "apply ltx"):
				return m.withExit("apply-failed")
			default:
				return m.withExit("rejected")
			}
		}
		if m.db == nil {
			return "notfound"
		}
		path, err := m.db.WriteLTXFileAt(ctx, bytes.NewReader(b))
		if err != nil {
			return m.withExit("rejected")
		}
		if err := m.db.ApplyLTXNoLock(path, true); err != nil {
			return m.withExit("apply-failed")
		}
		return m.withExit("ok")
	case "import": // import <data>
		if len(f) != 2 || m.store == nil {
			return "bad-op"
		}
		data, ok := bytesOf(f[1])
		if !ok {
			return "bad-op"
		}
		db, err := m.store.CreateDBIfNotExists("db")
		if err != nil {
			return errStr(err)
		}
		m.db = db
		m.db.Now = func() time.Time { return fixedNow }
		m.closeFiles()
		tctx, cancel := context.WithTimeout(ctx, 150*time.Millisecond)
		defer cancel()
		return m.withExit(errStr(m.db.Import(tctx, bytes.NewReader(data))))
	case "plant", "corrupt":
		// plant <file> <data>            : replace database|journal|wal with the given bytes
		// corrupt <file> flip <off> <xor> : xor one byte
		// corrupt <file> trunc <size>     : cut (or zero-extend) to size
		// corrupt <file> zero <off> <len> : zero a region
		// corrupt <file> put <off> <data> : overwrite bytes
		// All of them act on the files on disk, behind LiteFS's back (what a crash, a partial write
		// or a damaged disk leaves); they are only meaningful right before `reopen`.
		if len(f) < 3 || m.store == nil || m.db == nil {
			return "bad-op"
		}
		var path string
		switch f[1] {
		case "database":
			path = m.db.DatabasePath()
		case "journal":
			path = m.db.JournalPath()
		case "wal":
			path = m.db.WALPath()
		default:
			return "bad-op"
		}
		if f[0] == "plant" {
			data, ok := bytesOf(f[2])
			if !ok {
				return "bad-op"
			}
			if err := os.WriteFile(path, data, 0o666); err != nil {
				return "err"
			}
			return "ok"
		}
		b, err := os.ReadFile(path)
		if err != nil {
			return "enoent"
		}
		switch {
		case f[2] == "flip" && len(f) == 5:
			off, ok1 := atoi(f[3])
			x, ok2 := atoi(f[4])
			if !ok1 || !ok2 || off < 0 || int(off) >= len(b) {
				return "bad-op"
			}
			b[off] ^= byte(x)
		case f[2] == "trunc" && len(f) == 4:
			sz, ok := atoi(f[3])
			if !ok || sz < 0 || sz > 1<<26 {
				return "bad-op"
			}
			if int(sz) <= len(b) {
				b = b[:sz]
			} else {
				b = append(b, make([]byte, int(sz)-len(b))...)
			}
		case f[2] == "zero" && len(f) == 5:
			off, ok1 := atoi(f[3])
			n, ok2 := atoi(f[4])
			if !ok1 || !ok2 || off < 0 || n < 0 {
				return "bad-op"
			}
			for i := int(off); i < int(off+n) && i < len(b); i++ {
				b[i] = 0
			}
		case f[2] == "put" && len(f) == 5:
			off, ok1 := atoi(f[3])
			data, ok2 := bytesOf(f[4])
			if !ok1 || !ok2 || off < 0 || int(off)+len(data) > len(b) {
				return "bad-op"
			}
			copy(b[off:], data)
		default:
			return "bad-op"
		}
		if err := os.WriteFile(path, b, 0o666); err != nil {
			return "err"
		}
		return "ok"
	case "walfix": // recompute the checksum of the WAL header on disk (so that a crafted header verifies)
		if m.db == nil {
			return "bad-op"
		}
		b, err := os.ReadFile(m.db.WALPath())
		if err != nil || len(b) < 32 {
			return "enoent"
		}
		var bo binary.ByteOrder = binary.LittleEndian
		if binary.BigEndian.Uint32(b[0:]) == 0x377f0683 {
			bo = binary.BigEndian
		}
		var s0, s1 uint32
		for i := 0; i < 24; i += 8 {
			s0 += bo.Uint32(b[i:]) + s1
			s1 += bo.Uint32(b[i+4:]) + s0
		}
		binary.BigEndian.PutUint32(b[24:], s0)
		binary.BigEndian.PutUint32(b[28:], s1)
		if err := os.WriteFile(m.db.WALPath(), b, 0o666); err != nil {
			return "err"
		}
		return "ok"
	case "fsize": // fsize <file>: size of a raw file (generator feedback only)
		if len(f) != 2 || m.db == nil {
			return "bad-op"
		}
		switch f[1] {
		case "journal":
			return fileSize(m.db.JournalPath())
		case "wal":
			return fileSize(m.db.WALPath())
		}
		return fileSize(m.db.DatabasePath())
	case "locks": // state of the twelve locks as the store's expvar reports it
		if !m.need() {
			return "bad-op"
		}
		var v struct {
			DBs map[string]struct {
				Locks map[string]string `json:"locks"`
			} `json:"dbs"`
		}
		if err := json.Unmarshal([]byte(m.store.Expvar().String()), &v); err != nil {
			return "err"
		}
		l := v.DBs["db"].Locks
		var parts []string
		for _, k := range []string{"pending", "reserved", "shared", "write", "ckpt", "recover", "read0", "read1", "read2", "read3", "read4", "dms"} {
			parts = append(parts, k+"="+l[k])
		}
		return strings.Join(parts, " ")
	case "bg-start": // bg-start export|snapshot [LOCK:prev:next]
		if len(f) < 2 || (f[1] != "export" && f[1] != "snapshot") {
			return "bad-op"
		}
		m.installLockHook()
		pause := ""
		if len(f) == 3 {
			pause = f[2]
		}
		m.bgResult = ""
		return m.bgStart(f[1], pause)
	case "bg-resume": // let a paused background op continue; report where it ends up
		return m.bgResume()
	case "bg-result": // result of a background op that completed while application operations ran
		if m.bg != nil {
			st := m.bgSettle()
			if strings.HasPrefix(st, "finished") {
				return st
			}
			return st
		}
		if m.bgResult != "" {
			r := m.bgResult
			m.bgResult = ""
			return r
		}
		return "none"
	case "demote": // the node loses its lease (manual demotion); it does not try to become primary again
		if m.store == nil {
			return "bad-op"
		}
		m.store.Demote()
		for i := 0; i < 2000 && m.store.IsPrimary(); i++ {
			time.Sleep(time.Millisecond)
		}
		if m.store.IsPrimary() {
			return "still-primary"
		}
		return "ok"
	case "whold": // LiteFS takes its internal write lock and keeps it (apply / checkpoint / import / halt in progress)
		if !m.need() || m.held != nil {
			return "bad-op"
		}
		m.held = m.db.TryAcquireWriteLock()
		return fmt.Sprint(m.held != nil)
	case "wrelease":
		if !m.need() || m.held == nil {
			return "bad-op"
		}
		m.held.Unlock()
		m.held = nil
		return "ok"
	case "stray": // stray <n>: leave n temporary files next to the newest transaction file (a crashed writer)
		if len(f) != 2 || !m.need() {
			return "bad-op"
		}
		n, ok := atoi(f[1])
		if !ok {
			return "bad-op"
		}
		pos := m.db.Pos()
		base := m.db.LTXPath(pos.TXID, pos.TXID)
		next := m.db.LTXPath(pos.TXID+1, pos.TXID+1)
		names := []string{base + ".tmp", base + ".12345.tmp", next + ".tmp", next + ".777.tmp", filepath.Join(m.db.LTXDir(), "zzz.tmp")}
		for i := 0; i < int(n) && i < len(names); i++ {
			_ = os.MkdirAll(m.db.LTXDir(), 0o777)
			if err := os.WriteFile(names[i], []byte("partial"), 0o666); err != nil {
				return "err"
			}
			old := time.Now().Add(-2 * time.Hour)
			_ = os.Chtimes(names[i], old, old)
		}
		return "ok"
	case "age": // every transaction file on disk becomes two hours old
		if !m.need() {
			return "bad-op"
		}
		ents, _ := os.ReadDir(m.db.LTXDir())
		old := time.Now().Add(-2 * time.Hour)
		for _, e := range ents {
			_ = os.Chtimes(filepath.Join(m.db.LTXDir(), e.Name()), old, old)
		}
		return "ok"
	case "retain": // retention sweep with a one-hour retention period
		if !m.need() {
			return "bad-op"
		}
		return errStr(m.db.EnforceRetention(ctx, time.Now().Add(-time.Hour)))
	case "reopen": // the process dies here; a new one starts on the same data directory (no graceful shutdown)
		if m.store == nil {
			return "bad-op"
		}
		role := m.role
		if len(f) == 2 {
			role = f[1]
		}
		return m.crashRestart(role)
	}
	return "bad-op"
}

// crashRestart copies the data directory as it is now (what a dying process leaves behind),
// abandons the old store and opens a new one on the copy.
func (m *engineImpl) crashRestart(role string) string {
	newDir, err := os.MkdirTemp(os.Getenv("VERIF_SCRATCH"), "verif-eng-")
	if err != nil {
		return "err"
	}
	src := m.dir
	if m.exitSnap != "" {
		src = m.exitSnap // the process had already died at Store.Exit
	}
	if err := copyTree(filepath.Join(src, "data"), filepath.Join(newDir, "data")); err != nil {
		return "err copy"
	}
	if m.exitSnap != "" {
		_ = os.RemoveAll(m.exitSnap)
		m.exitSnap = ""
	}
	m.closeFiles()
	m.abandoned = append(m.abandoned, abandonedStore{m.store, m.dir}) // closed (after its files are removed) at the end of the case
	m.store, m.db, m.exit, m.dir = nil, nil, 0, newDir
	if role == "" {
		return "ok" // the caller opens the store on the copy
	}
	if err := m.openStore(role); err != nil {
		m.store = nil
		if os.Getenv("VERIF_LOG") != "" {
			fmt.Fprintln(os.Stderr, "reopen: open error:", err)
		}
		return "err open"
	}
	return "ok"
}

func copyTree(src, dst string) error {
	return filepath.Walk(src, func(p string, info os.FileInfo, err error) error {
		if err != nil {
			if os.IsNotExist(err) {
				return nil // a temporary file of the (still running) store vanished while we walked
			}
			return err
		}
		rel, _ := filepath.Rel(src, p)
		target := filepath.Join(dst, rel)
		if info.IsDir() {
			return os.MkdirAll(target, 0o777)
		}
		b, err := os.ReadFile(p)
		if err != nil {
			if os.IsNotExist(err) {
				return nil
			}
			return err
		}
		if err := os.WriteFile(target, b, 0o666); err != nil {
			return err
		}
		return os.Chtimes(target, info.ModTime(), info.ModTime())
	})
}

func (m *engineImpl) withExit(s string) string {
	if m.exit != 0 {
		return fmt.Sprintf("%s exit=%d", s, m.exit)
	}
	return s
}

func pageSizeOf(img []byte) int {
	if len(img) < 100 {
		return 0
	}
	ps := int(binary.BigEndian.Uint16(img[16:]))
	if ps == 1 {
		ps = 65536
	}
	return ps
}

// imageDigest: "<pageN>:<fnv64 of the per-page checksums, lock page excluded>"
func imageDigest(img []byte, ps int) string {
	if ps == 0 || len(img) == 0 {
		return "0:-"
	}
	n := len(img) / ps
	if n == 0 {
		return "0:-"
	}
	lock := uint32(0x40000000/ps) + 1
	var acc []byte
	for i := 0; i < n; i++ {
		pgno := uint32(i + 1)
		if pgno == lock {
			continue
		}
		var b [8]byte
		binary.BigEndian.PutUint64(b[:], pageChk(pgno, img[i*ps:(i+1)*ps]))
		acc = append(acc, b[:]...)
	}
	return fmt.Sprintf("%d:%016x", n, fnv64(acc))
}

func fileSize(p string) string {
	fi, err := os.Stat(p)
	if err != nil {
		return "-"
	}
	return strconv.FormatInt(fi.Size(), 10)
}

func (m *engineImpl) state() string {
	if m.store == nil {
		return "closed"
	}
	if m.db == nil {
		return "nodb"
	}
	pos := m.db.Pos()
	mode := "r"
	if m.db.Mode() == litefs.DBModeWAL {
		mode = "w"
	}
	s := fmt.Sprintf("pos=%d:%016x pageN=%d mode=%s files=d:%s,j:%s,w:%s", uint64(pos.TXID), uint64(pos.PostApplyChecksum),
		m.db.PageN(), mode, fileSize(m.db.DatabasePath()), fileSize(m.db.JournalPath()), fileSize(m.db.WALPath()))
	if m.exit != 0 {
		s += fmt.Sprintf(" exit=%d", m.exit)
	}
	if m.mount != nil {
		// what an application reads through the mount: the -pos file and the database file
		if bad := m.mount.crossCheck(m, pos); bad != "" {
			s += " MOUNT:" + bad
			if m.c != nil {
				m.c.Fail("through the mount: " + bad)
			}
		}
	}
	return s
}

// decodeLTX prints an LTX file at the decoded level.
func decodeLTX(b []byte, full bool) (string, error) {
	dec := ltx.NewDecoder(bytes.NewReader(b))
	if err := dec.DecodeHeader(); err != nil {
		return "", err
	}
	h := dec.Header()
	var pages []string
	var acc []byte
	buf := make([]byte, h.PageSize)
	for {
		var ph ltx.PageHeader
		if err := dec.DecodePage(&ph, buf); err == io.EOF {
			break
		} else if err != nil {
			return "", err
		}
		e := fmt.Sprintf("%d:%016x", ph.Pgno, pageChk(ph.Pgno, buf))
		pages = append(pages, e)
		acc = append(acc, e...)
		acc = append(acc, ',')
	}
	if err := dec.Close(); err != nil {
		return "", err
	}
	t := dec.Trailer()
	ps := strings.Join(pages, ",")
	if !full {
		ps = fmt.Sprintf("#%d:%016x", len(pages), fnv64(acc))
	}
	return fmt.Sprintf("%d-%d pre=%016x post=%016x commit=%d ps=%d wal=%d,%d,%08x,%08x pages=[%s]", uint64(h.MinTXID), uint64(h.MaxTXID),
		uint64(h.PreApplyChecksum), uint64(t.PostApplyChecksum), h.Commit, h.PageSize, h.WALOffset, h.WALSize, h.WALSalt1, h.WALSalt2, ps), nil
}

func (m *engineImpl) ltxListing() string {
	if m.db == nil {
		return "nodb"
	}
	dir := m.db.LTXDir()
	ents, err := os.ReadDir(dir)
	if err != nil {
		return "[]"
	}
	var names []string
	var other []string
	for _, e := range ents {
		if _, _, err := ltx.ParseFilename(e.Name()); err == nil {
			names = append(names, e.Name())
		} else {
			other = append(other, e.Name())
		}
	}
	sort.Strings(names)
	var out []string
	for k, n := range names {
		b, err := os.ReadFile(filepath.Join(dir, n))
		if err != nil {
			out = append(out, n+":unreadable")
			continue
		}
		// integrity: ltx.Decoder.Verify is the trusted oracle for the file-level checksum
		vdec := ltx.NewDecoder(bytes.NewReader(b))
		verr := vdec.Verify()
		d, err := decodeLTX(b, k == len(names)-1)
		if err != nil || verr != nil {
			out = append(out, n+":invalid")
			continue
		}
		mn, mx, _ := ltx.ParseFilename(n)
		if !strings.HasPrefix(d, fmt.Sprintf("%d-%d ", uint64(mn), uint64(mx))) {
			out = append(out, n+":misnamed")
			continue
		}
		out = append(out, d)
	}
	_ = other // temporary files and anything else that is not named like a transaction file are not part of the log
	return "[" + strings.Join(out, " | ") + "]"
}

// rawChecksum recomputes, from nothing, the checksum of the logical image as read from the raw
// files on disk: database file overlaid with the valid committed frames of the WAL
// (SQLite's rule: frames up to the last commit frame with matching salts and checksums).
func (m *engineImpl) rawChecksum() string {
	if m.db == nil {
		return "nodb"
	}
	dbb, err := os.ReadFile(m.db.DatabasePath())
	if err != nil || len(dbb) < 100 {
		return fmt.Sprintf("chk=%016x pageN=0 img=0:-", uint64(1)<<63)
	}
	ps := pageSizeOf(dbb)
	if ps < 512 || ps&(ps-1) != 0 {
		return "invalid-header"
	}
	pageN := int(binary.BigEndian.Uint32(dbb[28:]))
	pages := map[uint32][]byte{}
	if wb, err := os.ReadFile(m.db.WALPath()); err == nil && len(wb) >= 32 {
		frames, commit := walValidFrames(wb, ps)
		for pg, d := range frames {
			pages[pg] = d
		}
		if commit != 0 {
			pageN = int(commit)
		}
	}
	lock := uint32(0x40000000/ps) + 1
	var x uint64
	img := make([]byte, 0, pageN*ps)
	for i := 1; i <= pageN; i++ {
		var d []byte
		if p, ok := pages[uint32(i)]; ok {
			d = p
		} else if i*ps <= len(dbb) {
			d = dbb[(i-1)*ps : i*ps]
		} else {
			return fmt.Sprintf("short-database page=%d", i)
		}
		img = append(img, d...)
		if uint32(i) == lock {
			continue
		}
		x ^= pageChk(uint32(i), d)
	}
	return fmt.Sprintf("chk=%016x pageN=%d img=%s", x|1<<63, pageN, imageDigest(img, ps))
}

// walValidFrames: independent implementation of SQLite's WAL validity rule.
func walValidFrames(wb []byte, ps int) (map[uint32][]byte, uint32) {
	magic := binary.BigEndian.Uint32(wb[0:])
	var bo binary.ByteOrder
	switch magic {
	case 0x377f0682:
		bo = binary.LittleEndian
	case 0x377f0683:
		bo = binary.BigEndian
	default:
		return nil, 0
	}
	ck := func(s0, s1 uint32, b []byte) (uint32, uint32) {
		for i := 0; i+8 <= len(b); i += 8 {
			s0 += bo.Uint32(b[i:]) + s1
			s1 += bo.Uint32(b[i+4:]) + s0
		}
		return s0, s1
	}
	s0, s1 := ck(0, 0, wb[:24])
	if s0 != binary.BigEndian.Uint32(wb[24:]) || s1 != binary.BigEndian.Uint32(wb[28:]) {
		return nil, 0
	}
	if int(binary.BigEndian.Uint32(wb[8:])) != ps {
		return nil, 0
	}
	salt := wb[16:24]
	out := map[uint32][]byte{}
	tx := map[uint32][]byte{}
	var commit uint32
	for off := 32; off+24+ps <= len(wb); off += 24 + ps {
		h := wb[off : off+24]
		if !bytes.Equal(h[8:16], salt) {
			break
		}
		s0, s1 = ck(s0, s1, h[:8])
		s0, s1 = ck(s0, s1, wb[off+24:off+24+ps])
		if s0 != binary.BigEndian.Uint32(h[16:]) || s1 != binary.BigEndian.Uint32(h[20:]) {
			break
		}
		tx[binary.BigEndian.Uint32(h[0:])] = wb[off+24 : off+24+ps]
		if c := binary.BigEndian.Uint32(h[4:]); c != 0 {
			commit = c
			for k, v := range tx {
				out[k] = v
			}
			tx = map[uint32][]byte{}
		}
	}
	return out, commit
}

// buildLTX builds an LTX file from a spec: min max pre post commit ps [pgno=data ...]
// post may be "auto:<prevpost-xor-delta>"; here simply given as hex.
func buildLTX(f []string, compress bool) ([]byte, bool) {
	if len(f) < 6 {
		return nil, false
	}
	u := func(s string, base int) (uint64, bool) {
		v, err := strconv.ParseUint(s, base, 64)
		return v, err == nil
	}
	mn, ok1 := u(f[0], 10)
	mx, ok2 := u(f[1], 10)
	pre, ok3 := u(f[2], 16)
	post, ok4 := u(f[3], 16)
	commit, ok5 := u(f[4], 10)
	ps, ok6 := u(f[5], 10)
	if !(ok1 && ok2 && ok3 && ok4 && ok5 && ok6) {
		return nil, false
	}
	var buf bytes.Buffer
	enc := ltx.NewEncoder(&buf)
	flags := uint32(0)
	if compress {
		flags = ltx.HeaderFlagCompressLZ4
	}
	if err := enc.EncodeHeader(ltx.Header{Version: 1, Flags: flags, PageSize: uint32(ps), Commit: uint32(commit), MinTXID: ltx.TXID(mn), MaxTXID: ltx.TXID(mx),
		Timestamp: fixedNow.UnixMilli(), PreApplyChecksum: ltx.Checksum(pre)}); err != nil {
		return nil, false
	}
	for _, p := range f[6:] {
		kv := strings.SplitN(p, "=", 2)
		if len(kv) != 2 {
			return nil, false
		}
		pg, ok := u(kv[0], 10)
		data, ok2 := bytesOf(kv[1])
		if !ok || !ok2 {
			return nil, false
		}
		if err := enc.EncodePage(ltx.PageHeader{Pgno: uint32(pg)}, data); err != nil {
			return nil, false
		}
	}
	enc.SetPostApplyChecksum(ltx.Checksum(post))
	if err := enc.Close(); err != nil {
		return nil, false
	}
	return buf.Bytes(), true
}
