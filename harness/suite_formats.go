package main

import (
	"encoding/binary"
	"encoding/hex"
	"fmt"
	"strconv"
	"strings"
)

func init() {
	register(&Suite{Name: "formats", Gen: genFormats, New: func(c *Ctx) Runner { return &engineRunner{engineImpl{c: c}} }})
}

// genFormats: hot journals and WALs as the pager leaves them at an interruption point, then
// damaged (bit flips, truncations at every length class, zeroed regions, swapped salts, crafted
// header fields) or replaced by arbitrary bytes; the node is then restarted on that directory.
func genFormats(c *Ctx) error {
	c.Stats.Rule = "a committed history, then an uncommitted rollback-journal transaction (one or several segments, synced / unsynced / no-sync counts) or WAL content (committed + uncommitted frames) is left on disk, optionally damaged: truncation to every length class (header, sector, record boundaries +-1), bit flips, zeroed regions (incl. header fields: magic, nRec, nonce, size, sector size, page size), swapped or changed salts, crafted page size / version with recomputed header checksum, or arbitrary random bytes as journal / WAL / database; then a restart. Non-trivial = restart outcome observed with a damaged or interrupted file; distinct = distinct (kind, damage, page size)."
	r := c.Rng
	n := 120
	if c.Tier == "thorough" {
		n = 6000
	}
	// directed: what follows the last valid record is not a header but is readable — the stale tail
	// of an earlier, larger transaction in a PERSIST journal (its header zeroed at commit), or a
	// second-segment header that reads back as zeros; the interrupted transaction must roll back
	// to the committed image with the committed size
	for _, ps := range []int{512, 1024, 4096} {
		for _, variant := range []string{"persist-stale-tail", "persist-stale-tail-grow", "zeroed-second-header"} {
			cs := c.Begin()
			do := func(op string) string { c.Count("op." + strings.SplitN(op, " ", 2)[0]); return cs.Do(op) }
			p := newPager(r, ps, do)
			p.journalMode = "PERSIST"
			if variant == "zeroed-second-header" {
				p.journalMode = "DELETE"
			}
			do("open primary")
			do("createdb")
			all := txShape{newN: 8, pages: map[int]bool{}, commit: true}
			for pg := 1; pg <= 8; pg++ {
				all.pages[pg] = true
			}
			p.journalTx(all, 0, 0)
			big := txShape{newN: 8, pages: map[int]bool{1: true, 2: true, 3: true, 4: true, 5: true, 6: true, 7: true}, commit: true}
			p.journalTx(big, 0, 0)
			hot := *p
			hot.do = func(op string) string {
				if op == "jrm" || op == "jtr" || op == "jw 0 z28" || strings.HasPrefix(op, "dbt ") || strings.HasPrefix(op, "unlock") {
					return "skipped" // the process dies before finalising
				}
				return do(op)
			}
			switch variant {
			case "persist-stale-tail":
				hot.journalTx(txShape{newN: 8, pages: map[int]bool{1: true, 2: true}, commit: true}, 0, 0)
			case "persist-stale-tail-grow":
				hot.journalTx(txShape{newN: 10, pages: map[int]bool{1: true, 9: true, 10: true}, commit: true}, 0, 0)
			default:
				hot.journalTx(txShape{newN: 8, pages: map[int]bool{1: true, 2: true, 3: true, 4: true}, commit: true}, 2, 0)
				szs := do("fsize journal")
				if sz, _ := strconv.Atoi(szs); sz > 0 {
					// the second segment's header sector reads back as zeros (written, not yet durable)
					second := ((512+2*(ps+8)-1)/512 + 1) * 512
					do(fmt.Sprintf("corrupt journal zero %d 28", second))
				}
			}
			res := do("reopen")
			c.Count("reopen." + firstWords(res, 2))
			if variant != "zeroed-second-header" {
				cs.Do("expect-recovered")
				cs.Do(p.refLine())
				c.Count("clean")
			} else {
				cs.Do("ref-unknown")
			}
			do("state")
			do("raw")
			if res == "ok" {
				do("ltx")
			}
			cs.End()
			c.Nontrivial(fmt.Sprintf("directed|%s|%d", variant, ps))
		}
	}
	// directed: the journalled original of page 1 comes back with its page-size / page-count header
	// field zeroed (the record checksum samples only every 200th byte, so such damage passes it):
	// the rollback writes that page into the database; the restart must answer, not panic
	for _, ps := range []int{512, 4096} {
		for _, fld := range [][2]int{{16, 2}, {28, 4}, {16, 16}} {
			cs := c.Begin()
			do := func(op string) string { c.Count("op." + strings.SplitN(op, " ", 2)[0]); return cs.Do(op) }
			p := newPager(r, ps, do)
			do("open primary")
			do("createdb")
			p.journalTx(p.randomShape(5), 0, 0)
			p.journalTx(p.randomShape(3), 0, 0)
			hot := *p
			hot.do = func(op string) string {
				if op == "jrm" || op == "jtr" || op == "jw 0 z28" || strings.HasPrefix(op, "dbt ") || strings.HasPrefix(op, "unlock") {
					return "skipped"
				}
				return do(op)
			}
			hot.journalTx(txShape{newN: len(p.img), pages: map[int]bool{1: true}, commit: true}, 0, 0)
			do("fsize journal")
			do(fmt.Sprintf("corrupt journal zero %d %d", 512+4+fld[0], fld[1]))
			cs.Do("ref-unknown")
			res := do("reopen")
			c.Count("reopen." + firstWords(res, 2))
			do("state")
			do("raw")
			cs.End()
			c.Nontrivial(fmt.Sprintf("directed|page1-field-%d-zero|%d", fld[0], ps))
		}
	}
	for i := 0; i < n; i++ {
		ps := pick(r, []int{512, 1024, 4096})
		cs := c.Begin()
		do := func(op string) string { c.Count("op." + strings.SplitN(op, " ", 2)[0]); return cs.Do(op) }
		p := newPager(r, ps, do)
		p.walBig = r.Bool()
		p.nosync = r.Chance(1, 5)
		p.journalMode = pick(r, []string{"DELETE", "TRUNCATE", "PERSIST"})
		do("open primary")
		do("createdb")
		first := p.randomShape(6)
		p.journalTx(first, 0, 0)
		p.journalTx(p.randomShape(4), 0, 0)
		kind := pick(r, []string{"journal", "journal", "journal", "wal", "wal", "random-journal", "random-wal", "random-db"})
		sig := fmt.Sprintf("%s|%d", kind, ps)
		switch kind {
		case "journal":
			// an interrupted transaction: everything up to (not including) finalisation
			hot := *p
			hot.do = func(op string) string {
				if op == "jrm" || op == "jtr" || op == "jw 0 z28" || strings.HasPrefix(op, "dbt ") {
					return "skipped" // the process dies before finalising
				}
				if strings.HasPrefix(op, "unlock") || (strings.HasPrefix(op, "rlock") && strings.HasSuffix(op, " SHARED") && false) {
					return "skipped"
				}
				return do(op)
			}
			s := hot.randomShape(4)
			spill := 0
			if r.Chance(1, 2) {
				spill = r.Range(1, 3)
			}
			hot.journalTx(s, spill, 0)
			sig += fmt.Sprintf("|spill%d", spill)
		case "wal":
			p.wal = true
			p.journalTx(txShape{newN: len(p.img), pages: map[int]bool{1: true}, commit: true}, 0, 0)
			p.walTx(p.randomShape(3), false, r.Bool(), false)
			if r.Bool() {
				p.walTx(p.randomShape(3), false, false, false)
			}
			if r.Bool() {
				p.walTx(p.randomShape(3), true, false, false) // uncommitted frames at the end
			}
		case "random-journal":
			do("plant journal " + hex.EncodeToString(r.Bytes(pick(r, []int{0, 1, 8, 27, 28, 29, 512, 540, 1100, 4200}))))
		case "random-wal":
			do("plant wal " + hex.EncodeToString(r.Bytes(pick(r, []int{0, 1, 31, 32, 33, 56, 64, 600, 4200}))))
		case "random-db":
			do("plant database " + hex.EncodeToString(r.Bytes(pick(r, []int{1, 50, 99, 100, 101, 512, 2000}))))
		}
		file := "journal"
		if strings.Contains(kind, "wal") {
			file = "wal"
		}
		szs := do("fsize " + file)
		sz, _ := strconv.Atoi(szs)
		// damage
		if !strings.HasPrefix(kind, "random") && sz > 0 {
			rec := ps + 8
			unit := 512
			if file == "wal" {
				rec, unit = ps+24, 32
			}
			switch d := r.Intn(12); d {
			case 0: // untouched interruption
				sig += "|clean"
			case 1, 2: // truncation at a length class
				cuts := []int{0, 1, 8, 12, 27, 28, 29, unit - 1, unit, unit + 1, unit + 4, unit + rec - 1, unit + rec, unit + rec + 1, sz - 1, sz / 2, unit + 2*rec}
				k := pick(r, cuts)
				if k < 0 {
					k = 0
				}
				do(fmt.Sprintf("corrupt %s trunc %d", file, k))
				sig += fmt.Sprintf("|trunc%d", k)
			case 3, 4: // bit flip
				off := r.Intn(sz)
				if r.Bool() && sz > 40 {
					off = r.Intn(40) // header fields
				}
				if file == "journal" && off >= 16 && off <= 18 {
					// the high bytes of the original database size: a flipped bit there makes the
					// rollback extend the database to tens of thousands of pages — the real code does
					// that with a sparse file in no time, the byte-level model would need minutes
					// (crafted sizes up to 4000 pages are covered by the `hdr16=` cases)
					off = 19
				}
				do(fmt.Sprintf("corrupt %s flip %d %d", file, off, 1<<uint(r.Intn(8))))
				sig += fmt.Sprintf("|flip%d", off)
			case 5, 6: // zeroed region, header fields first
				regions := [][2]int{{0, 8}, {8, 4}, {12, 4}, {16, 4}, {20, 4}, {24, 4}, {0, 28}, {0, 32}, {unit, 8}, {unit, rec}, {sz / 2, 64}, {16, 8}}
				g := pick(r, regions)
				do(fmt.Sprintf("corrupt %s zero %d %d", file, g[0], g[1]))
				sig += fmt.Sprintf("|zero%d+%d", g[0], g[1])
			case 7: // salts swapped / changed (WAL), nonce changed (journal)
				if file == "wal" && sz >= 32 {
					do("corrupt wal put 16 " + hex.EncodeToString(r.Bytes(8)))
				} else {
					do("corrupt journal put 12 " + hex.EncodeToString(r.Bytes(4)))
				}
				sig += "|salt"
			case 8: // crafted header field with a header checksum that still verifies (WAL) / plausible value (journal)
				if file == "wal" && sz >= 32 {
					do("corrupt wal put 8 " + fmt.Sprintf("%08x", pick(r, []int{0, 100, 300, 512, 513, 65536, 1 << 20})))
					sig += "|ps"
					c.Count("note.wal-pagesize-crafted")
					// recompute the header checksum so that the header is accepted
					cs.Do("walfix")
				} else {
					fld := pick(r, [][2]int{{20, 0}, {20, 1}, {20, 7}, {20, 513}, {20, 1 << 30}, {24, 0}, {24, 100}, {24, 1 << 20}, {8, 0xffffffff}, {8, 1 << 20}, {16, 0}, {16, 4000}})
					do(fmt.Sprintf("corrupt journal put %d %08x", fld[0], fld[1]))
					sig += fmt.Sprintf("|hdr%d=%d", fld[0], fld[1])
				}
			case 9: // extend with zeros / garbage
				do(fmt.Sprintf("corrupt %s trunc %d", file, sz+pick(r, []int{1, 7, rec, unit})))
				sig += "|extend"
			case 10: // database file damaged too
				do(fmt.Sprintf("corrupt database trunc %d", pick(r, []int{0, 50, 100, ps - 1, ps, ps + 1})))
				sig += "|dbtrunc"
			default:
				sig += "|clean"
			}
		}
		if !(strings.HasSuffix(sig, "|clean") && (kind == "journal" || kind == "wal")) {
			cs.Do("ref-unknown") // damaged files: what a restart yields is not prescribed, only that it answers
		}
		res := do("reopen")
		c.Count("reopen." + firstWords(res, 2))
		clean := strings.HasSuffix(sig, "|clean") && (kind == "journal" || kind == "wal")
		if clean {
			// an undamaged interruption must recover to the last committed image
			cs.Do("expect-recovered")
			cs.Do(p.refLine())
			c.Count("clean")
		}
		do("state")
		do("raw")
		if res == "ok" {
			// the restarted node can be used: one local transaction
			do("ltx")
		}
		cs.End()
		c.Nontrivial(sig)
	}
	return nil
}

var _ = binary.BigEndian
