package main

import (
	"encoding/json"
	"errors"
	"io"
	"net"
	"net/http"
	"os"

	"github.com/superfly/litefs"
	"github.com/superfly/ltx"
)

// fakeLFSC is a local stand-in for the LiteFS Cloud service that speaks the protocol of
// lfsc/backup_client.go (GET /pos, POST /db/tx, GET /db/snapshot; position-mismatch errors as
// JSON with code EPOSMISMATCH; the high-water mark in the Litefs-Hwm header).  Behind the HTTP
// front end it keeps its state with the repository's own file-based backup client on the suite's
// service directory, so every operation the suite performs as the service's operator (losing,
// replacing, extending files) is seen by both client implementations alike.
type fakeLFSC struct {
	ln  net.Listener
	srv *http.Server
	fc  *litefs.FileBackupClient
}

func newFakeLFSC(fc *litefs.FileBackupClient) (*fakeLFSC, error) {
	ln, err := net.Listen("tcp", "127.0.0.1:0")
	if err != nil {
		return nil, err
	}
	f := &fakeLFSC{ln: ln, fc: fc}
	f.srv = &http.Server{Handler: f}
	go func() { _ = f.srv.Serve(ln) }()
	return f, nil
}

func (f *fakeLFSC) Host() string { return f.ln.Addr().String() }

func (f *fakeLFSC) Close() { _ = f.srv.Close() }

func (f *fakeLFSC) fail(w http.ResponseWriter, status int, code string, err error, pos ltx.Pos) {
	w.Header().Set("Content-Type", "application/json")
	w.WriteHeader(status)
	_ = json.NewEncoder(w).Encode(map[string]any{"code": code, "error": err.Error(), "pos": pos})
}

func (f *fakeLFSC) ServeHTTP(w http.ResponseWriter, r *http.Request) {
	w.Header().Set("Lfsc-Instance-Id", "fake0")
	switch {
	case r.Method == http.MethodGet && r.URL.Path == "/pos":
		m, err := f.fc.PosMap(r.Context())
		if err != nil {
			f.fail(w, http.StatusInternalServerError, "EINTERNAL", err, ltx.Pos{})
			return
		}
		w.Header().Set("Content-Type", "application/json")
		_ = json.NewEncoder(w).Encode(m)
	case r.Method == http.MethodPost && r.URL.Path == "/db/tx":
		name := r.URL.Query().Get("db")
		if name == "" {
			f.fail(w, http.StatusBadRequest, "EBADREQUEST", errors.New("db required"), ltx.Pos{})
			return
		}
		hwm, err := f.fc.WriteTx(r.Context(), name, r.Body)
		var pm *ltx.PosMismatchError
		if errors.As(err, &pm) {
			_, _ = io.Copy(io.Discard, r.Body)
			f.fail(w, http.StatusConflict, "EPOSMISMATCH", err, pm.Pos)
			return
		} else if err != nil {
			_, _ = io.Copy(io.Discard, r.Body)
			f.fail(w, http.StatusInternalServerError, "EINTERNAL", err, ltx.Pos{})
			return
		}
		w.Header().Set("Litefs-Hwm", hwm.String())
		w.WriteHeader(http.StatusOK)
	case r.Method == http.MethodGet && r.URL.Path == "/db/snapshot":
		name := r.URL.Query().Get("db")
		rc, err := f.fc.FetchSnapshot(r.Context(), name)
		if err != nil {
			status := http.StatusInternalServerError
			if os.IsNotExist(err) {
				status = http.StatusNotFound
			}
			f.fail(w, status, "ENOTFOUND", err, ltx.Pos{})
			return
		}
		defer func() { _ = rc.Close() }()
		_, _ = io.Copy(w, rc)
	default:
		f.fail(w, http.StatusNotFound, "ENOTFOUND", errors.New("not found"), ltx.Pos{})
	}
}
