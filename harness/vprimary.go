package main

import (
	"fmt"
	"strings"
)

// vprimary is a virtual primary: a history of images and the LTX files (as `spec` strings for the
// sapply/txapply ops) that lead from one to the next. It never touches an implementation.
type vprimary struct {
	r    *Rand
	ps   int
	img  [][]byte
	tok  []string
	txid uint64
	chk  uint64
	p    *pager // page generators
}

func newVPrimary(r *Rand, ps int) *vprimary {
	return &vprimary{r: r, ps: ps, p: newPager(r, ps, func(string) string { return "" })}
}

func (v *vprimary) lock() int { return 0x40000000/v.ps + 1 }

func (v *vprimary) checksum(img [][]byte) uint64 {
	var x uint64
	for i, b := range img {
		if i+1 == v.lock() {
			continue
		}
		x ^= pageChk(uint32(i+1), b)
	}
	return x | 1<<63
}

// commit changes the image (new size newN, pages `modify` rewritten, page 1 always) and returns
// the spec of the incremental LTX file.
func (v *vprimary) commit(newN int, modify map[int]bool) string {
	n := len(v.img)
	img := make([][]byte, newN)
	tok := make([]string, newN)
	var parts []string
	modify[1] = true
	for pg := n + 1; pg <= newN; pg++ {
		modify[pg] = true
	}
	for i := 0; i < newN; i++ {
		pg := i + 1
		if modify[pg] && pg != v.lock() {
			if pg == 1 {
				tok[i], img[i] = v.p.page1(newN, false)
			} else {
				tok[i], img[i] = v.p.pageTok()
			}
			parts = append(parts, fmt.Sprintf("%d=%s", pg, tok[i]))
		} else if i < n {
			img[i], tok[i] = v.img[i], v.tok[i]
		} else {
			img[i], tok[i] = make([]byte, v.ps), fmt.Sprintf("z%d", v.ps)
		}
	}
	pre := v.chk
	v.img, v.tok = img, tok
	v.txid++
	v.chk = v.checksum(img)
	return fmt.Sprintf("%d %d %016x %016x %d %d %s", v.txid, v.txid, pre, v.chk, newN, v.ps, strings.Join(parts, " "))
}

// tombstone: the database is deleted on the primary.
func (v *vprimary) tombstone() string {
	pre := v.chk
	v.img, v.tok = nil, nil
	v.txid++
	v.chk = 1 << 63
	return fmt.Sprintf("%d %d %016x %016x 0 %d", v.txid, v.txid, pre, v.chk, v.ps)
}

// snapshot of the current position.
func (v *vprimary) snapshot() string {
	var parts []string
	for i := range v.img {
		if i+1 == v.lock() {
			continue
		}
		parts = append(parts, fmt.Sprintf("%d=%s", i+1, v.tok[i]))
	}
	return fmt.Sprintf("1 %d %016x %016x %d %d %s", v.txid, uint64(0), v.chk, len(v.img), v.ps, strings.Join(parts, " "))
}

func (v *vprimary) randomCommit(maxGrow int) string {
	n := len(v.img)
	newN := n
	switch {
	case n == 0:
		newN = v.r.Range(1, maxGrow)
	case v.r.Chance(1, 4) && n > 1:
		newN = v.r.Range(1, n-1)
	case v.r.Chance(2, 5):
		newN = n + v.r.Range(1, maxGrow)
	}
	m := map[int]bool{}
	for i, k := 0, v.r.Range(0, 5); i < k; i++ {
		m[v.r.Range(1, max(1, min(n, newN)))] = true
	}
	return v.commit(newN, m)
}

func (v *vprimary) refLine() string {
	parts := make([]string, len(v.img))
	for i, b := range v.img {
		if i+1 == v.lock() {
			parts[i] = "0"
		} else {
			parts[i] = fmt.Sprintf("%016x", pageChk(uint32(i+1), b))
		}
	}
	return fmt.Sprintf("ref %d %d %s", v.ps, len(v.img), strings.Join(parts, ","))
}

func (v *vprimary) digest() string {
	var all []byte
	for _, b := range v.img {
		all = append(all, b...)
	}
	return imageDigest(all, v.ps)
}

// clone returns an independent copy (a fork of the history at the current position) drawing from
// the same random stream.
func (v *vprimary) clone() *vprimary {
	w := *v
	w.img = append([][]byte{}, v.img...)
	w.tok = append([]string{}, v.tok...)
	pp := *v.p
	w.p = &pp
	return &w
}
