package main

import (
	"fmt"
	"strings"
)

func init() {
	register(&Suite{Name: "replica", Gen: genReplica, New: func(c *Ctx) Runner { return &engineRunner{engineImpl{c: c}} }})
}

// genReplica: a node without write authority. It follows a (virtual) primary through the real
// stream path and, between applies, is attacked with every file operation an application could
// issue through the mount or the import endpoint, and with transaction files that do not extend
// its position.  After every step: image, position and log must be what the stream made them.
func genReplica(c *Ctx) error {
	c.Stats.Rule = "replica following a virtual primary through the real stream path (snapshot, incrementals, tombstone, re-creation); between applies every mount-level operation kind is attempted at every pager-protocol state (journal and WAL shapes) plus import, and non-extending / corrupt transaction files are offered on the stream and forwarding paths. Non-trivial = at least 2 applied files and 3 refused operations; distinct = distinct op list."
	r := c.Rng
	nHist := 40
	if c.Tier == "thorough" {
		nHist = 500
	}
	for h := 0; h < nHist; h++ {
		ps := pick(r, []int{512, 1024, 4096})
		cs := c.Begin()
		var sig strings.Builder
		applied, refused := 0, 0
		do := func(op string) string {
			obs := cs.Do(op)
			c.Count("op." + strings.SplitN(op, " ", 2)[0])
			if obs == "readonly" || obs == "rejected" {
				refused++
			}
			c.Count("res." + firstWords(obs, 1))
			return obs
		}
		v := newVPrimary(r, ps)
		do("open replica")
		check := func(what string) {
			cs.Do(v.refLine())
			st := cs.Do("state")
			cs.Do("ltx")
			raw := cs.Do("raw")
			if strings.Contains(st, "exit=") {
				c.Fail(fmt.Sprintf("history %d %s: store exited: %s", h, what, st))
			}
			if len(v.img) > 0 && !strings.Contains(raw, "img="+v.digest()) {
				c.Fail(fmt.Sprintf("history %d %s: image %q differs from the primary's %q", h, what, raw, v.digest()))
			}
			if !strings.Contains(st, fmt.Sprintf("pos=%d:%016x ", v.txid, v.chk)) && v.txid > 0 {
				c.Fail(fmt.Sprintf("history %d %s: position %q differs from the primary's %d:%016x", h, what, st, v.txid, v.chk))
			}
		}
		// initial join: first transaction(s) as individual files or as a snapshot
		v.randomCommit(8)
		if r.Bool() {
			v.randomCommit(8)
		}
		if out := do("sapply " + v.snapshot()); out == "ok" {
			applied++
		}
		check("join")
		steps := r.Range(4, 12)
		for i := 0; i < steps; i++ {
			switch k := r.Intn(14); {
			case k < 3: // legitimate incremental
				if out := do("sapply " + v.randomCommit(6)); out == "ok" {
					applied++
				}
				sig.WriteString(",inc")
			case k == 3 && len(v.img) > 0: // primary deletes the database, later re-creates it
				do("sapply " + v.tombstone())
				applied++
				check("tombstone")
				do("sapply " + v.randomCommit(5))
				applied++
				sig.WriteString(",drop")
			case k == 4: // application tries a rollback-journal transaction
				off := int64(r.Intn(max(1, len(v.img)))) * int64(ps)
				do("rlock 7 PENDING")
				do("rlock 7 SHARED")
				do("unlock 7 PENDING")
				do("lock 7 RESERVED")
				do("jc")
				do(fmt.Sprintf("jw 0 %s%08x%08x%08x%08x%08x+z484", journalMagic, 0, 7, len(v.img), 512, ps))
				do("lock 7 PENDING")
				do("lock 7 SHARED")
				do(fmt.Sprintf("dbw %d g%dx%d", off, r.Intn(999), ps))
				do(pick(r, []string{"jrm", "jtr", "jw 0 z28"}))
				do("unlock 7 PENDING,RESERVED,SHARED")
				sig.WriteString(",jtx")
			case k == 5: // application tries a WAL transaction
				do("wc")
				do("rlock 7 DMS")
				do("lock 7 WRITE")
				do("ww 0 377f0682002de218" + fmt.Sprintf("%08x", ps) + "00000000aabbccdd11223344" + "0000000000000000")
				do(fmt.Sprintf("ww 32 %08x%08x%s", 1, len(v.img), "aabbccdd11223344"+"0000000000000000"))
				do(fmt.Sprintf("ww 56 g%dx%d", r.Intn(999), ps))
				do("unlock 7 WRITE")
				do("unlock 7 DMS")
				do(pick(r, []string{"wt 0", "wrm", "state"}))
				sig.WriteString(",wtx")
			case k == 6: // truncation / removal / import
				do(fmt.Sprintf("dbt %d", int64(r.Intn(len(v.img)+2))*int64(ps)))
				do("drop")
				do(fmt.Sprintf("import %s", v.tok0()))
				sig.WriteString(",trunc")
			case k == 7: // a file that does not extend the position: wrong TXID
				spec := strings.Fields(v.peekCommit())
				spec[0], spec[1] = fmt.Sprint(v.txid+2), fmt.Sprint(v.txid+2)
				do(pick(r, []string{"sapply ", "txapply "}) + strings.Join(spec, " "))
				sig.WriteString(",badtxid")
			case k == 12 && v.txid >= 3: // a multi-transaction (compacted) file that overlaps the position: first TXID at or below it, last = position+1, carrying the current checksum
				spec := strings.Fields(v.peekCommit())
				spec[0], spec[1] = fmt.Sprint(v.txid-uint64(r.Range(0, 1))), fmt.Sprint(v.txid+1)
				do(pick(r, []string{"sapply ", "txapply "}) + strings.Join(spec, " "))
				sig.WriteString(",range")
			case k == 8: // wrong pre-apply checksum
				spec := strings.Fields(v.peekCommit())
				spec[2] = fmt.Sprintf("%016x", (v.chk^0x1234)|1<<63)
				do(pick(r, []string{"sapply ", "txapply "}) + strings.Join(spec, " "))
				sig.WriteString(",badpre")
			case k == 9: // stale file (already applied position)
				if v.txid >= 2 {
					spec := strings.Fields(v.peekCommit())
					spec[0], spec[1] = fmt.Sprint(v.txid), fmt.Sprint(v.txid)
					do(pick(r, []string{"sapply ", "txapply "}) + strings.Join(spec, " "))
				}
				sig.WriteString(",stale")
			case k == 11: // the next file (or a snapshot), exactly extending the position, with a damaged body
				spec := v.peekCommit()
				if r.Chance(1, 3) {
					spec = v.snapshot()
				}
				do(fmt.Sprintf("%s %d %s", pick(r, []string{"sapplyx", "txapplyx"}), r.Intn(1000), spec))
				c.Count("corrupt-body")
				sig.WriteString(",badbody")
			case k == 10: // a later rejoin by snapshot (e.g. after the primary trimmed its log)
				v.randomCommit(5)
				v.randomCommit(5)
				if out := do("sapply " + v.snapshot()); out == "ok" {
					applied++
				}
				sig.WriteString(",snap")
			default: // lock traffic by a reader
				do("rlock 9 PENDING")
				do("rlock 9 SHARED")
				do("unlock 9 PENDING")
				do("canlock 9 RESERVED")
				do("unlock 9 SHARED")
			}
			check(fmt.Sprintf("step %d", i))
		}
		cs.End()
		if applied >= 2 && refused >= 3 {
			c.Nontrivial(fmt.Sprintf("%d%s", ps, sig.String()))
		}
	}
	// --- a primary that is demoted at every point of an in-flight local transaction ---------------
	nDem := 24
	if c.Tier == "thorough" {
		nDem = 400
	}
	for h := 0; h < nDem; h++ {
		ps := pick(r, []int{512, 4096})
		walTx := h%2 == 0
		// count the operations of the transaction first (dry run), then demote before operation k
		for pass := 0; pass < 2; pass++ {
			_ = pass
		}
		cs := c.Begin()
		nops, demoteAt := 0, -1
		var p *pager
		demoted := false
		var do func(op string) string
		do = func(op string) string {
			if demoteAt >= 0 && nops == demoteAt && !demoted {
				demoted = true
				cs.Do("demote")
			}
			nops++
			return cs.Do(op)
		}
		p = newPager(r, ps, func(op string) string { return do(op) })
		p.walBig = r.Bool()
		do("open primary")
		do("createdb")
		p.journalTx(p.randomShape(4), 0, 0)
		p.journalTx(p.randomShape(3), 0, 0)
		if walTx {
			p.wal = true
			p.journalTx(txShape{newN: len(p.img), pages: map[int]bool{1: true}, commit: true}, 0, 0)
			p.walTx(p.randomShape(3), false, false, false)
		}
		cs.Do(p.refLine())
		cs.Do("state")
		cs.Do("ltx")
		cs.Do("raw")
		// the in-flight transaction: demote after a random number of its operations
		start := nops
		demoteAt = start + r.Range(1, 14)
		savedImg, savedTok := p.img, p.tok
		refused := false
		inner := do
		do = func(op string) string {
			obs := inner(op)
			isCommit := op == "jrm" || op == "jtr" || op == "jw 0 z28" || strings.HasSuffix(op, " WRITE") && strings.HasPrefix(op, "unlock")
			if (isCommit && obs != "ok") || obs == "readonly" {
				refused = true // a write or the commit step came after write authority was lost
			}
			return obs
		}
		if walTx {
			p.walTx(p.randomShape(3), false, false, false)
		} else {
			p.journalMode = pick(r, []string{"DELETE", "TRUNCATE", "PERSIST"})
			p.journalTx(p.randomShape(3), 0, 0)
		}
		if !demoted {
			cs.Do("demote") // after the transaction completed
		}
		if refused {
			p.img, p.tok = savedImg, savedTok // nothing was published: SQLite's view after a restart is the old image
			c.Count("demote.refused")
		} else {
			c.Count("demote.committed")
		}
		cs.Do("ref-restart") // the next observations are about what a restart recovers
		cs.Do(p.refLine())
		cs.Do("reopen replica")
		cs.Do("state")
		cs.Do("ltx")
		cs.Do("raw")
		cs.End()
		c.Count("demote-history")
		c.Nontrivial(fmt.Sprintf("demote|%d|%v|%d", ps, walTx, demoteAt-start))
	}
	return nil
}

// peekCommit returns the spec of a plausible next incremental file without advancing the primary.
func (v *vprimary) peekCommit() string {
	w := *v
	w.img = append([][]byte{}, v.img...)
	w.tok = append([]string{}, v.tok...)
	rr := *v.r
	w.r = &rr
	pp := *v.p
	pp.r = w.r
	w.p = &pp
	return w.randomCommit(4)
}

// tok0 returns the current image as one import token.
func (v *vprimary) tok0() string {
	if len(v.tok) == 0 {
		return "-"
	}
	return strings.Join(v.tok, "+")
}
