// Command harness drives the real litefs code (current /repo working tree, built
// with -tags verif) and writes, per suite, the operation lines (ops.txt), the
// implementation's canonical observations (impl.out) and statistics
// (stats.json).  The same ops.txt is then fed to the Lean model driver.
package main

import (
	"bufio"
	"encoding/json"
	"flag"
	"fmt"
	"io"
	"log"
	"os"
	"path/filepath"
	"sort"
	"strings"
	"time"

	"github.com/superfly/litefs"
)

// Ctx is the per-run context given to a suite.
type Ctx struct {
	Seed  uint64
	Tier  string // quick | thorough
	Dir   string // output directory
	Rng   *Rand
	ops   *bufio.Writer
	impl  *bufio.Writer
	Stats *Stats
	Arg   string // optional suite argument (e.g. replay file)

	OpTimeout time.Duration
	Flags     map[string]bool // from -arg "a,b"
	Child     bool            // running as a resource-limited child for one op

	suite    *Suite
	caseN    int
	curCase  []string
	caseKeys map[string]bool
}

// Stats are the measured figures a suite reports.
type Stats struct {
	Suite              string         `json:"suite"`
	Cases              int            `json:"cases"`
	Ops                int            `json:"ops"`
	DistinctNontrivial int            `json:"distinct_nontrivial"`
	Rule               string         `json:"rule"`
	Counters           map[string]int `json:"counters"`
	Samples            []string       `json:"samples"`
	Exhaustive         bool           `json:"exhaustive"`
	Notes              []string       `json:"notes,omitempty"`
	// Oracle failures established on the implementation alone (independent of the model).
	OracleFailures []OracleFailure `json:"oracle_failures,omitempty"`
}

type OracleFailure struct {
	Case   int    `json:"case"`
	What   string `json:"what"`
	Replay string `json:"replay,omitempty"`
}

func (c *Ctx) Count(key string) { c.Stats.Counters[key]++ }
func (c *Ctx) CountN(key string, n int) {
	c.Stats.Counters[key] += n
}

// Flag reports whether the suite argument contains the given flag.
func (c *Ctx) Flag(name string) bool { return c != nil && c.Flags[name] }

// Runner is one fresh instance of the implementation under test; Do executes one
// operation line and returns the canonical observation line.
type Runner interface {
	Do(op string) string
	Close()
}

// Suite couples a generator of cases with an interpreter of operation lines, so
// every generated case can be replayed (and shrunk) from its lines alone.
type Suite struct {
	Name string
	Gen  func(c *Ctx) error
	New  func(c *Ctx) Runner
}

// Case is a case in progress.
type Case struct {
	c    *Ctx
	r    Runner
	N    int
	dead bool
}

// Begin starts a new case on a fresh implementation instance.
func (c *Ctx) Begin() *Case {
	c.caseN++
	c.Stats.Cases++
	line := fmt.Sprintf("case %d", c.caseN)
	fmt.Fprintln(c.ops, line)
	fmt.Fprintln(c.impl, line)
	c.curCase = c.curCase[:0]
	return &Case{c: c, r: c.suite.New(c), N: c.caseN}
}

// Do runs one operation line on the implementation, records both, returns the observation.
// After a panic or a hang the instance is unusable (e.g. a sync.Mutex left locked):
// every later operation of the case is answered "dead" without touching it; the
// model driver applies the same rule.
func (cs *Case) Do(op string) string {
	if cs.dead {
		cs.c.record(op, "dead")
		return "dead"
	}
	t0 := time.Now()
	obs := safeDo(cs.r, op, cs.c.OpTimeout)
	if d := time.Since(t0); d > 700*time.Millisecond && len(cs.c.Stats.Notes) < 40 {
		cs.c.Stats.Notes = append(cs.c.Stats.Notes, fmt.Sprintf("slow op (%d ms): %.60s => %.40s", d.Milliseconds(), op, obs))
		if flushEach {
			fmt.Fprintf(os.Stderr, "slow op (%d ms): %.60s => %.40s\n", d.Milliseconds(), op, obs)
		}
	}
	if strings.HasPrefix(obs, "panic") {
		cs.c.Stats.Notes = append(cs.c.Stats.Notes, fmt.Sprintf("case %d: %s", cs.N, obs))
		obs = "panic" // panic messages are not compared with the model
	}
	if obs == "panic" || obs == "hang" {
		cs.dead = true
	}
	cs.c.record(op, obs)
	return obs
}

func safeDo(r Runner, op string, timeout time.Duration) string {
	ch := make(chan string, 1)
	go func() {
		defer func() {
			if e := recover(); e != nil {
				ch <- "panic " + oneLine(fmt.Sprint(e))
			}
		}()
		ch <- r.Do(op)
	}()
	select {
	case obs := <-ch:
		return obs
	case <-time.After(timeout):
		return "hang"
	}
}

func oneLine(s string) string {
	s = strings.ReplaceAll(s, "\n", " ")
	s = strings.ReplaceAll(s, "\r", " ")
	return s
}

// End finishes the case.
func (cs *Case) End() {
	if !cs.dead {
		cs.r.Close()
	}
	c := cs.c
	if len(c.Stats.Samples) < 3 && len(c.curCase) > 0 {
		s := strings.Join(c.curCase, " ; ")
		if len(s) > 600 {
			s = s[:600] + "…"
		}
		c.Stats.Samples = append(c.Stats.Samples, s)
	}
}

// Nontrivial records the canonical key of a case that is non-trivial by the suite's rule.
func (c *Ctx) Nontrivial(key string) {
	if !c.caseKeys[key] {
		c.caseKeys[key] = true
		c.Stats.DistinctNontrivial++
	}
}

func (c *Ctx) record(op, obs string) {
	if strings.ContainsAny(op, "\n\r") {
		panic("newline in op")
	}
	obs = oneLine(obs)
	fmt.Fprintln(c.ops, op)
	fmt.Fprintln(c.impl, obs)
	if flushEach {
		c.ops.Flush()
		c.impl.Flush()
	}
	c.Stats.Ops++
	if len(c.curCase) < 40 {
		o, b := op, obs
		if len(o) > 120 {
			o = o[:120] + "…"
		}
		if len(b) > 120 {
			b = b[:120] + "…"
		}
		c.curCase = append(c.curCase, o+" => "+b)
	}
}

// replay executes the cases of an ops file.
func (c *Ctx) replay(path string) error {
	f, err := os.Open(path)
	if err != nil {
		return err
	}
	defer f.Close()
	sc := bufio.NewScanner(f)
	sc.Buffer(make([]byte, 1<<20), 1<<30)
	var cs *Case
	for sc.Scan() {
		line := sc.Text()
		if strings.HasPrefix(line, "#") || strings.TrimSpace(line) == "" {
			continue
		}
		if strings.HasPrefix(line, "case ") {
			if cs != nil {
				cs.End()
			}
			cs = c.Begin()
			continue
		}
		if cs == nil {
			cs = c.Begin()
		}
		cs.Do(line)
	}
	if cs != nil {
		cs.End()
	}
	return sc.Err()
}

// Fail records an oracle failure found on the implementation itself.
func (c *Ctx) Fail(what string) {
	c.Stats.OracleFailures = append(c.Stats.OracleFailures, OracleFailure{Case: c.caseN, What: what})
}

var suites = map[string]*Suite{}

var flushEach = os.Getenv("VERIF_FLUSH") != ""

func register(s *Suite) { suites[s.Name] = s }

func main() {
	seed := flag.Uint64("seed", 1, "PRNG seed")
	tier := flag.String("tier", "quick", "quick|thorough")
	out := flag.String("out", "", "output directory")
	arg := flag.String("arg", "", "suite argument")
	replay := flag.String("replay", "", "replay the cases of this ops file instead of generating")
	child := flag.Bool("child", false, "child mode: read op lines from stdin, print observations")
	flag.Parse()
	if flag.NArg() != 1 || *out == "" {
		names := make([]string, 0, len(suites))
		for n := range suites {
			names = append(names, n)
		}
		sort.Strings(names)
		fmt.Fprintf(os.Stderr, "usage: harness -out DIR [-seed N] [-tier quick|thorough] <suite>\nsuites: %s\n", strings.Join(names, " "))
		os.Exit(2)
	}
	if os.Getenv("VERIF_LOG") == "" {
		log.SetOutput(io.Discard) // litefs logs through the standard logger
	}
	if os.Getenv("VERIF_TRACE") != "" {
		litefs.TraceLog.SetOutput(os.Stderr)
	}
	name := flag.Arg(0)
	su, ok := suites[name]
	if !ok {
		fmt.Fprintf(os.Stderr, "unknown suite %q\n", name)
		os.Exit(2)
	}
	if *child {
		c := &Ctx{Seed: *seed, Tier: *tier, Rng: NewRand(*seed), Stats: &Stats{Counters: map[string]int{}}, suite: su, Child: true, OpTimeout: 20 * time.Second}
		r := su.New(c)
		sc := bufio.NewScanner(os.Stdin)
		sc.Buffer(make([]byte, 1<<20), 1<<30)
		for sc.Scan() {
			fmt.Println(oneLine(safeDo(r, sc.Text(), c.OpTimeout)))
		}
		return
	}
	if err := os.MkdirAll(*out, 0o755); err != nil {
		fmt.Fprintln(os.Stderr, err)
		os.Exit(2)
	}
	opsF, err := os.Create(filepath.Join(*out, "ops.txt"))
	if err != nil {
		fmt.Fprintln(os.Stderr, err)
		os.Exit(2)
	}
	implF, err := os.Create(filepath.Join(*out, "impl.out"))
	if err != nil {
		fmt.Fprintln(os.Stderr, err)
		os.Exit(2)
	}
	c := &Ctx{
		Seed: *seed, Tier: *tier, Dir: *out, Rng: NewRand(*seed), Arg: *arg,
		ops: bufio.NewWriterSize(opsF, 1<<20), impl: bufio.NewWriterSize(implF, 1<<20),
		Stats:    &Stats{Suite: name, Counters: map[string]int{}},
		caseKeys: map[string]bool{}, suite: su, OpTimeout: 8 * time.Second,
	}
	c.Flags = map[string]bool{}
	for _, a := range strings.Split(*arg, ",") {
		if a != "" {
			c.Flags[a] = true
		}
	}
	var runErr error
	if *replay != "" {
		runErr = c.replay(*replay)
	} else {
		runErr = su.Gen(c)
	}
	c.ops.Flush()
	c.impl.Flush()
	opsF.Close()
	implF.Close()
	b, _ := json.MarshalIndent(c.Stats, "", " ")
	_ = os.WriteFile(filepath.Join(*out, "stats.json"), b, 0o644)
	if runErr != nil {
		fmt.Fprintf(os.Stderr, "suite %s: %v\n", name, runErr)
		os.Exit(3)
	}
}
