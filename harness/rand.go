package main

// Rand is a splitmix64 PRNG: every random choice of the harness derives from
// one seed so that a run replays exactly.
type Rand struct{ s uint64 }

// The seed goes through the output mix first: with a state that is linear in the seed, the stream
// of seed s+1 would be the stream of seed s shifted by one draw.
func NewRand(seed uint64) *Rand {
	z := seed*0x9E3779B97F4A7C15 + 0x1234567
	z = (z ^ (z >> 30)) * 0xBF58476D1CE4E5B9
	z = (z ^ (z >> 27)) * 0x94D049BB133111EB
	return &Rand{s: z ^ (z >> 31)}
}

func (r *Rand) Uint64() uint64 {
	r.s += 0x9E3779B97F4A7C15
	z := r.s
	z = (z ^ (z >> 30)) * 0xBF58476D1CE4E5B9
	z = (z ^ (z >> 27)) * 0x94D049BB133111EB
	return z ^ (z >> 31)
}

// Intn returns a value in [0,n).
func (r *Rand) Intn(n int) int {
	if n <= 0 {
		return 0
	}
	return int(r.Uint64() % uint64(n))
}

// Range returns a value in [lo,hi].
func (r *Rand) Range(lo, hi int) int { return lo + r.Intn(hi-lo+1) }

func (r *Rand) Bool() bool { return r.Uint64()&1 == 1 }

// Chance is true with probability num/den.
func (r *Rand) Chance(num, den int) bool { return r.Intn(den) < num }

func (r *Rand) Bytes(n int) []byte {
	b := make([]byte, n)
	for i := 0; i < n; i += 8 {
		v := r.Uint64()
		for j := 0; j < 8 && i+j < n; j++ {
			b[i+j] = byte(v >> (8 * j))
		}
	}
	return b
}

// Fork derives an independent generator (for parallel shards).
func (r *Rand) Fork() *Rand { return NewRand(r.Uint64()) }

func pick[T any](r *Rand, xs []T) T { return xs[r.Intn(len(xs))] }
