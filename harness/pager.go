package main

import (
	"encoding/binary"
	"encoding/hex"
	"fmt"
	"strings"
)

// pager simulates SQLite's pager on the LiteFS file interface: it emits the operation lines a
// real pager would issue (locks, journal / WAL / database writes, finalisation) and keeps its
// own reference image = "what SQLite sees".
type pager struct {
	r     *Rand
	do    func(op string) string // issue an op on the implementation, returns the observation
	ps    int
	img   [][]byte // committed reference image (page i at index i-1)
	tok   []string // token that regenerates each page of img
	owner int

	journalMode string // DELETE | TRUNCATE | PERSIST
	journalFile bool   // journal file currently exists
	nosync      bool
	sector      int

	wal        bool // database is in WAL mode
	walFile    bool
	walBig     bool // big-endian checksum magic
	walInit    bool // header written for the current generation
	salt1      uint32
	salt2      uint32
	ck0, ck1   uint32
	walOff     int64
	walPages   map[uint32][]byte // committed pages living in the WAL (not yet checkpointed)
	ckptSeq    uint32
	changeCtr  uint32
	dmsHeld    bool
	seedCursor int
	onCommit   func() // called when the call that commits a transaction has returned

	closeRelease  bool // a WAL writer may release WRITE by closing its shm handle (UnlockSHM)
	exclusiveMode bool // transactions that keep the size may leave page 1 alone (locking_mode=EXCLUSIVE)
}

func newPager(r *Rand, ps int, do func(string) string) *pager {
	return &pager{r: r, do: do, ps: ps, owner: 1, journalMode: "DELETE", sector: 512, walPages: map[uint32][]byte{}}
}

func (p *pager) lockPgno() int { return 0x40000000/p.ps + 1 }

// pageTok returns (token, bytes) for a generated non-header page.
func (p *pager) pageTok() (string, []byte) {
	p.seedCursor++
	seed := p.r.Intn(100000)
	t := fmt.Sprintf("g%dx%d", seed, p.ps)
	b, _ := untok(t)
	return t, b
}

// page1 builds a database header page.
func (p *pager) page1(pageN int, walMode bool) (string, []byte) {
	hdr := make([]byte, 100)
	copy(hdr, "SQLite format 3\x00")
	if p.ps == 65536 {
		binary.BigEndian.PutUint16(hdr[16:], 1)
	} else {
		binary.BigEndian.PutUint16(hdr[16:], uint16(p.ps))
	}
	v := byte(1)
	if walMode {
		v = 2
	}
	hdr[18], hdr[19] = v, v
	hdr[21], hdr[22], hdr[23] = 64, 32, 32
	p.changeCtr++
	binary.BigEndian.PutUint32(hdr[24:], p.changeCtr)
	binary.BigEndian.PutUint32(hdr[28:], uint32(pageN))
	binary.BigEndian.PutUint32(hdr[40:], p.changeCtr) // schema cookie
	binary.BigEndian.PutUint32(hdr[92:], p.changeCtr)
	seed := p.r.Intn(100000)
	rest := fmt.Sprintf("g%dx%d", seed, p.ps-100)
	rb, _ := untok(rest)
	return hex.EncodeToString(hdr) + "+" + rest, append(hdr, rb...)
}

func (p *pager) off(pgno int) int64 { return int64(pgno-1) * int64(p.ps) }

// txShape describes the effect of a transaction on the image.
type txShape struct {
	newN   int          // new page count
	pages  map[int]bool // modified / appended pages (page 1 always)
	commit bool
	tempN  int // pages newN+1..tempN are appended and written by a cache spill, then freed before commit
}

func (p *pager) randomShape(maxGrow int) txShape {
	n := len(p.img)
	s := txShape{pages: map[int]bool{1: true}, commit: true}
	switch {
	case n == 0:
		s.newN = p.r.Range(1, maxGrow)
	case p.r.Chance(1, 4) && n > 1: // shrink (vacuum-like)
		s.newN = p.r.Range(1, n-1)
		if p.r.Chance(1, 3) && n > 260 { // cross a 256-page checksum block
			s.newN = p.r.Range(1, max(1, n-257))
		}
	case p.r.Chance(2, 5):
		s.newN = n + p.r.Range(1, maxGrow)
	default:
		s.newN = n
	}
	k := p.r.Range(0, 6)
	for i := 0; i < k; i++ {
		s.pages[p.r.Range(1, max(1, min(n, s.newN)))] = true
	}
	for pg := n + 1; pg <= s.newN; pg++ {
		s.pages[pg] = true
	}
	if p.exclusiveMode && n > 1 && s.newN == n && len(s.pages) > 1 && p.r.Chance(1, 6) {
		// exclusive locking mode: the change counter on page 1 is only bumped by the first write
		// transaction under the held lock; later ones may leave page 1 alone
		delete(s.pages, 1)
	}
	delete(s.pages, p.lockPgno())
	return s
}

func sortedKeys(m map[int]bool) []int {
	var ks []int
	for k := range m {
		ks = append(ks, k)
	}
	for i := 1; i < len(ks); i++ {
		for j := i; j > 0 && ks[j-1] > ks[j]; j-- {
			ks[j-1], ks[j] = ks[j], ks[j-1]
		}
	}
	return ks
}

func be32(v uint32) string { return fmt.Sprintf("%08x", v) }

const journalMagic = "d9d505f920a163d7"

func journalCksum(data []byte, nonce uint32) uint32 {
	c := nonce
	for i := len(data) - 200; i > 0; i -= 200 {
		c += uint32(data[i])
	}
	return c
}

// journalHeader returns the token for one header sector.
func (p *pager) journalHeader(nRec uint32, nonce uint32, dbSize int) string {
	h := journalMagic + be32(nRec) + be32(nonce) + be32(uint32(dbSize)) + be32(uint32(p.sector)) + be32(uint32(p.ps))
	return h + fmt.Sprintf("+z%d", p.sector-28)
}

// journalTx runs one rollback-journal write transaction. spill: number of pages after which the
// cache spills (0 = never). rollback: 0 commit, 1 rollback before any database write, 2 rollback after spill.
func (p *pager) journalTx(s txShape, spillAfter int, rollback int) {
	o := p.owner
	n := len(p.img)
	p.do(fmt.Sprintf("rlock %d PENDING", o))
	p.do(fmt.Sprintf("rlock %d SHARED", o))
	p.do(fmt.Sprintf("unlock %d PENDING", o))
	p.do(fmt.Sprintf("lock %d RESERVED", o))
	if !p.journalFile {
		p.do("jc")
		p.journalFile = true
	}
	nonce := uint32(p.r.Uint64())
	nRec0 := uint32(0)
	if p.nosync {
		nRec0 = 0xffffffff
	}
	segStart := int64(0)
	p.do(fmt.Sprintf("jw 0 %s", p.journalHeader(nRec0, nonce, n)))
	joff := int64(p.sector)
	recs := 0
	journaled := map[int]bool{}
	newPages := map[int][]byte{}
	newToks := map[int]string{}
	for _, pg := range sortedKeys(s.pages) {
		if pg == 1 {
			newToks[pg], newPages[pg] = p.page1(s.newN, p.wal)
		} else {
			newToks[pg], newPages[pg] = p.pageTok()
		}
	}
	exclusive := false
	spilledBeyond := 0
	written := map[int]bool{}
	goExclusive := func() {
		if !exclusive {
			p.do(fmt.Sprintf("lock %d PENDING", o))
			p.do(fmt.Sprintf("lock %d SHARED", o))
			exclusive = true
		}
	}
	syncJournal := func() {
		if !p.nosync {
			p.do(fmt.Sprintf("jw %d %s", segStart, journalMagic+be32(uint32(recs))))
		}
	}
	count := 0
	for _, pg := range sortedKeys(s.pages) {
		if pg <= n && !journaled[pg] { // original content goes to the journal
			orig := p.img[pg-1]
			p.do(fmt.Sprintf("jw %d %s", joff, be32(uint32(pg))))
			p.do(fmt.Sprintf("jw %d %s", joff+4, p.tok[pg-1]))
			p.do(fmt.Sprintf("jw %d %s", joff+4+int64(p.ps), be32(journalCksum(orig, nonce))))
			joff += int64(p.ps) + 8
			recs++
			journaled[pg] = true
		}
		count++
		if spillAfter > 0 && count == spillAfter && count < len(s.pages) {
			// cache spill: sync journal, take EXCLUSIVE, write what we have, start a new segment
			syncJournal()
			goExclusive()
			for _, w := range sortedKeys(s.pages) {
				// (a page of the old image that the transaction will cut off at commit is still part of
				// the file while the transaction runs: a spill writes it like any other dirty page)
				if (w <= s.newN || (w <= n && journaled[w])) && (journaled[w] || w > n) && !written[w] && newPages[w] != nil && w <= pg {
					p.do(fmt.Sprintf("dbw %d %s", p.off(w), newToks[w]))
					written[w] = true
				}
			}
			// pages appended by the transaction and freed again before commit reach the file too
			for w := max(n, s.newN) + 1; w <= s.tempN; w++ {
				if w == p.lockPgno() {
					continue
				}
				t, _ := p.pageTok()
				p.do(fmt.Sprintf("dbw %d %s", p.off(w), t))
				spilledBeyond = w
			}
			if !p.nosync {
				// (with synchronous=OFF SQLite's syncJournal does nothing at all: no record count,
				// no new header — a no-sync journal has exactly one segment and later records
				// follow the earlier ones directly)
				segStart = ((joff-1)/int64(p.sector) + 1) * int64(p.sector)
				recs = 0
				p.do(fmt.Sprintf("jw %d %s", segStart, p.journalHeader(nRec0, nonce, n)))
				joff = segStart + int64(p.sector)
			}
		}
	}
	finalize := func() {
		switch p.journalMode {
		case "DELETE":
			p.do("jrm")
			p.journalFile = false
		case "TRUNCATE":
			p.do("jtr")
		default:
			p.do("jw 0 z28")
		}
		if p.onCommit != nil && rollback == 0 {
			p.onCommit()
		}
	}
	unlockAll := func() {
		if exclusive {
			p.do(fmt.Sprintf("rlock %d SHARED", o))
		}
		p.do(fmt.Sprintf("unlock %d PENDING,RESERVED", o))
		p.do(fmt.Sprintf("unlock %d SHARED", o))
	}
	if rollback == 1 && len(written) == 0 {
		finalize()
		unlockAll()
		return
	}
	if rollback != 0 {
		// play back the journal: restore every page already written, then finalise
		goExclusive()
		for _, w := range sortedKeys(written) {
			if w <= n {
				p.do(fmt.Sprintf("dbw %d %s", p.off(w), p.tok[w-1]))
			}
		}
		finalize()
		// pages appended beyond the original size are cut off after finalisation
		maxW := 0
		for w := range written {
			if w > maxW {
				maxW = w
			}
		}
		if spilledBeyond > maxW {
			maxW = spilledBeyond
		}
		if maxW > n && n > 0 {
			p.do(fmt.Sprintf("dbt %d", int64(n)*int64(p.ps)))
		}
		unlockAll()
		return
	}
	syncJournal()
	goExclusive()
	for _, w := range sortedKeys(s.pages) {
		if w <= s.newN && !written[w] {
			p.do(fmt.Sprintf("dbw %d %s", p.off(w), newToks[w]))
			written[w] = true
		}
	}
	finalize()
	if s.newN < n || spilledBeyond > s.newN {
		p.do(fmt.Sprintf("dbt %d", int64(s.newN)*int64(p.ps)))
	}
	unlockAll()
	// update reference image
	img := make([][]byte, s.newN)
	tok := make([]string, s.newN)
	for i := 0; i < s.newN; i++ {
		if b, ok := newPages[i+1]; ok {
			img[i], tok[i] = b, newToks[i+1]
		} else if i < n {
			img[i], tok[i] = p.img[i], p.tok[i]
		} else {
			img[i], tok[i] = make([]byte, p.ps), fmt.Sprintf("z%d", p.ps) // lock page hole
		}
	}
	p.img, p.tok = img, tok
}

// ---- WAL ---------------------------------------------------------------------------------------

func (p *pager) walCk(s0, s1 uint32, b []byte) (uint32, uint32) {
	for i := 0; i+8 <= len(b); i += 8 {
		var a, c uint32
		if p.walBig {
			a, c = binary.BigEndian.Uint32(b[i:]), binary.BigEndian.Uint32(b[i+4:])
		} else {
			a, c = binary.LittleEndian.Uint32(b[i:]), binary.LittleEndian.Uint32(b[i+4:])
		}
		s0 += a + s1
		s1 += c + s0
	}
	return s0, s1
}

func (p *pager) walHeader() string {
	magic := uint32(0x377f0682)
	if p.walBig {
		magic = 0x377f0683
	}
	h := make([]byte, 32)
	binary.BigEndian.PutUint32(h[0:], magic)
	binary.BigEndian.PutUint32(h[4:], 3007000)
	binary.BigEndian.PutUint32(h[8:], uint32(p.ps))
	binary.BigEndian.PutUint32(h[12:], p.ckptSeq)
	binary.BigEndian.PutUint32(h[16:], p.salt1)
	binary.BigEndian.PutUint32(h[20:], p.salt2)
	p.ck0, p.ck1 = p.walCk(0, 0, h[:24])
	binary.BigEndian.PutUint32(h[24:], p.ck0)
	binary.BigEndian.PutUint32(h[28:], p.ck1)
	return hex.EncodeToString(h)
}

// walTx appends one WAL transaction. mode: 0 commit, 1 rollback (frames without a commit frame).
// repeat: some pages are written twice (an earlier frame superseded within the transaction).
func (p *pager) walTx(s txShape, rollback bool, repeat bool, splitWrites bool) {
	o := p.owner
	if !p.dmsHeld {
		p.do(fmt.Sprintf("rlock %d DMS", o))
		p.dmsHeld = true
	}
	if !p.walFile {
		p.do("wc")
		p.walFile = true
		p.walInit = false
		p.walOff = 0
	}
	rd := fmt.Sprintf("READ%d", p.r.Intn(5))
	p.do(fmt.Sprintf("rlock %d %s", o, rd))
	if got := p.do(fmt.Sprintf("lock %d WRITE", o)); got == "false" {
		// SQLITE_BUSY: somebody else (e.g. a LiteFS snapshot capturing its position) holds the write lock
		p.do(fmt.Sprintf("unlock %d %s", o, rd))
		return
	}
	ck0, ck1, off := p.ck0, p.ck1, p.walOff
	if !p.walInit {
		p.salt1++
		p.salt2 = uint32(p.r.Uint64())
		if p.salt1 == 1 {
			p.salt1 = uint32(p.r.Uint64()) | 1
		}
		p.do("ww 0 " + p.walHeader())
		p.walOff = 32
		ck0, ck1, off = p.ck0, p.ck1, 32
		p.walInit = true
		p.walPages = map[uint32][]byte{}
	}
	type fr struct {
		pg   int
		tok  string
		data []byte
	}
	var frames []fr
	for _, pg := range sortedKeys(s.pages) {
		if pg > s.newN {
			continue
		}
		var t string
		var b []byte
		if pg == 1 {
			t, b = p.page1(s.newN, true)
		} else {
			t, b = p.pageTok()
		}
		frames = append(frames, fr{pg, t, b})
	}
	if repeat && len(frames) > 1 {
		// an earlier version of some pages precedes the final ones
		var pre []fr
		for _, f := range frames {
			if p.r.Bool() {
				var t string
				var b []byte
				if f.pg == 1 {
					t, b = p.page1(s.newN, true)
				} else {
					t, b = p.pageTok()
				}
				pre = append(pre, fr{f.pg, t, b})
			}
		}
		frames = append(pre, frames...)
	}
	for i, f := range frames {
		commit := uint32(0)
		if i == len(frames)-1 && !rollback {
			commit = uint32(s.newN)
		}
		h := make([]byte, 24)
		binary.BigEndian.PutUint32(h[0:], uint32(f.pg))
		binary.BigEndian.PutUint32(h[4:], commit)
		binary.BigEndian.PutUint32(h[8:], p.salt1)
		binary.BigEndian.PutUint32(h[12:], p.salt2)
		ck0, ck1 = p.walCk(ck0, ck1, h[:8])
		ck0, ck1 = p.walCk(ck0, ck1, f.data)
		binary.BigEndian.PutUint32(h[16:], ck0)
		binary.BigEndian.PutUint32(h[20:], ck1)
		if splitWrites && p.r.Bool() {
			p.do(fmt.Sprintf("ww %d %s", off, hex.EncodeToString(h[:8])))
			p.do(fmt.Sprintf("ww %d %s", off+8, hex.EncodeToString(h[8:])))
		} else {
			p.do(fmt.Sprintf("ww %d %s", off, hex.EncodeToString(h)))
		}
		p.do(fmt.Sprintf("ww %d %s", off+24, f.tok))
		off += 24 + int64(p.ps)
	}
	if p.closeRelease && p.r.Chance(1, 8) {
		// the connection goes away (the shm handle is flushed) while it holds WRITE: everything
		// it holds on the shm file is released at once, and a complete transaction is captured
		p.do(fmt.Sprintf("shmclose %d", o))
		p.dmsHeld = false
		if p.onCommit != nil && !rollback {
			p.onCommit()
		}
	} else {
		p.do(fmt.Sprintf("unlock %d WRITE", o))
		if p.onCommit != nil && !rollback {
			p.onCommit()
		}
		p.do(fmt.Sprintf("unlock %d %s", o, rd))
	}
	if rollback {
		return // frames stay in the file beyond walOff; the next transaction overwrites them
	}
	p.ck0, p.ck1, p.walOff = ck0, ck1, off
	n := len(p.img)
	img := make([][]byte, s.newN)
	tok := make([]string, s.newN)
	for i := 0; i < s.newN; i++ {
		if i < n {
			img[i], tok[i] = p.img[i], p.tok[i]
		} else {
			img[i], tok[i] = make([]byte, p.ps), fmt.Sprintf("z%d", p.ps)
		}
	}
	for _, f := range frames {
		img[f.pg-1], tok[f.pg-1] = f.data, f.tok
		p.walPages[uint32(f.pg)] = f.data
	}
	p.img, p.tok = img, tok
}

// sqliteCheckpoint copies the committed WAL pages into the database file the way SQLite does
// (holding CKPT), optionally restarting the log so that the next writer begins a new generation.
func (p *pager) sqliteCheckpoint(restart bool, truncate bool) bool {
	o := p.owner
	if p.do(fmt.Sprintf("lock %d CKPT", o)) != "true" {
		return false
	}
	var pgs []int
	for pg := range p.walPages {
		if int(pg) <= len(p.img) {
			pgs = append(pgs, int(pg))
		}
	}
	m := map[int]bool{}
	for _, pg := range pgs {
		m[pg] = true
	}
	for _, pg := range sortedKeys(m) {
		p.do(fmt.Sprintf("dbw %d %s", p.off(pg), p.tok[pg-1]))
	}
	// a complete checkpoint ends with sqlite3OsTruncate(dbFd, nPage*pageSize) (walCheckpoint): a
	// database that shrank in the WAL is cut to its committed size before the log can restart
	if len(p.img) > 0 {
		p.do(fmt.Sprintf("dbt %d", int64(len(p.img))*int64(p.ps)))
	}
	p.do(fmt.Sprintf("unlock %d CKPT", o))
	if restart {
		p.walInit = false // next writer rewrites the header with new salts
		p.ckptSeq++
		if truncate {
			p.do(fmt.Sprintf("lock %d WRITE", o))
			p.do("wt 0")
			p.do(fmt.Sprintf("unlock %d WRITE", o))
		}
	}
	return true
}

// toRollback is PRAGMA journal_mode=DELETE on a WAL-mode database: a full checkpoint, the log is
// deleted, then the file-format version bytes of page 1 go back to 1,1 through an ordinary
// rollback-journal transaction (sqlite3PagerCloseWal + sqlite3BtreeSetVersion).
func (p *pager) toRollback() bool {
	if !p.wal || len(p.img) == 0 {
		return false
	}
	if len(p.walPages) > 0 || p.walInit {
		if !p.sqliteCheckpoint(true, false) {
			return false
		}
	}
	o := p.owner
	if p.dmsHeld {
		p.do(fmt.Sprintf("unlock %d DMS", o))
		p.dmsHeld = false
	}
	if p.walFile {
		p.do("wrm")
	}
	p.walFile, p.walInit = false, false
	p.walPages = map[uint32][]byte{}
	p.walOff = 0
	p.wal = false
	p.journalTx(txShape{newN: len(p.img), pages: map[int]bool{1: true}, commit: true}, 0, 0)
	return true
}

// refLine renders the reference image as the `ref` pseudo-operation consumed by the spec checker.
func (p *pager) refLine() string {
	lock := p.lockPgno()
	parts := make([]string, len(p.img))
	for i, b := range p.img {
		if i+1 == lock {
			parts[i] = "0"
		} else {
			parts[i] = fmt.Sprintf("%016x", pageChk(uint32(i+1), b))
		}
	}
	return fmt.Sprintf("ref %d %d %s", p.ps, len(p.img), strings.Join(parts, ","))
}

func (p *pager) refImageDigest() string {
	var all []byte
	for _, b := range p.img {
		all = append(all, b...)
	}
	return imageDigest(all, p.ps)
}

// dropped resets the simulator after the database was deleted.
func (p *pager) dropped() {
	p.img, p.tok = nil, nil
	p.wal, p.walFile, p.walInit, p.journalFile, p.dmsHeld = false, false, false, false, false
	p.walPages = map[uint32][]byte{}
	p.walOff = 0
}

// restarted resets what a LiteFS restart resets: locks are gone, the journal is rolled back and
// removed, the WAL is checkpointed and truncated.
func (p *pager) restarted() {
	p.journalFile, p.dmsHeld, p.walInit, p.walFile = false, false, false, false // the pager re-opens (O_CREAT) its files
	p.walPages = map[uint32][]byte{}
	p.walOff = 0
}
