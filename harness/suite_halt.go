package main

import (
	"fmt"
	"strings"
)

func init() {
	register(&Suite{Name: "halt", Gen: genHalt, New: func(c *Ctx) Runner { return &clusterImpl{c: c} }})
}

// clonePager copies the simulator state that a failed commit must not change.
func clonePager(p *pager) *pager {
	q := *p
	q.img = append([][]byte{}, p.img...)
	q.tok = append([]string{}, p.tok...)
	q.walPages = map[uint32][]byte{}
	for k, v := range p.walPages {
		q.walPages[k] = v
	}
	return &q
}

// genHalt: write forwarding under a halt lock on real clusters (2-3 nodes, real HTTP): a replica
// takes the primary's halt lock, commits transactions that are forwarded to the primary, releases;
// local writers on the primary during the halt; repeated acquire / release; publishing after
// release and after expiry; primary change while a halt is held.
func genHalt(c *Ctx) error {
	c.Stats.Rule = "clusters of 2-3 real nodes: a replica acquires the halt lock of the primary's database (real /halt), runs pager-simulator transactions that are forwarded (real /tx) and releases; while the lock is held the primary's own writers and checkpoints are attempted; repeated acquire with the same id, repeated release, publishing after release, after expiry of a short-lived lock and without ever holding one; primary change while a halt is held; rollback-journal and WAL mode. Non-trivial = at least 2 forwarded commits and 2 refusals; distinct = distinct step signature."
	r := c.Rng
	nHist := 10
	if c.Tier == "thorough" {
		nHist = 100
	}
	if c.Flag("tiny") {
		nHist = 3
	}
	directedInterruptedRelease(c)
	directedHaltRecoveryFault(c)
	if c.Flag("recovery-fault") {
		return nil
	}
	directedHaltCatchUp(c)
	for h := 0; h < nHist; h++ {
		ps := pick(r, []int{512, 1024, 4096})
		nNodes := r.Range(2, 3)
		cs := c.Begin()
		var sig strings.Builder
		fmt.Fprintf(&sig, "n=%d,ps=%d", nNodes, ps)
		do := func(op string) string {
			f := strings.Fields(op)
			k := f[0]
			if k == "n" && len(f) > 2 {
				k = "n." + f[2]
			}
			c.Count("op." + k)
			return cs.Do(op)
		}
		lastCommit := map[int]string{}
		beforeCommit := map[int]func(){} // runs once, right before node k's next commit operation
		mkPager := func(k int) *pager {
			p := newPager(r, ps, func(op string) string {
				if hook := beforeCommit[k]; hook != nil && (op == "jrm" || op == "jtr" || strings.HasSuffix(op, " WRITE") && strings.HasPrefix(op, "unlock ")) {
					delete(beforeCommit, k)
					hook()
				}
				out := do(fmt.Sprintf("n %d %s", k, op))
				if op == "jrm" || op == "jtr" || strings.HasSuffix(op, " WRITE") && strings.HasPrefix(op, "unlock ") {
					lastCommit[k] = out
				}
				return out
			})
			p.journalMode = pick(r, []string{"DELETE", "TRUNCATE"})
			p.walBig = r.Bool()
			return p
		}
		do(fmt.Sprintf("cluster %d", nNodes))
		do("allow 0")
		for k := 0; k < nNodes; k++ {
			do(fmt.Sprintf("up %d", k))
		}
		primary := 0
		P := mkPager(0)
		forwarded, refusals := 0, 0
		failed := false
		hist := map[string]bool{}
		// only[k] restricts the observation to the nodes whose state is determined at this moment
		// (replication to third nodes is asynchronous until the next `sync`)
		var only map[int]bool
		expectExit := map[int]bool{} // a former holder whose WAL commit was refused stops (by design)
		states := func(what string) (pos []string) {
			for k := 0; k < nNodes; k++ {
				if only != nil && !only[k] {
					pos = append(pos, "")
					continue
				}
				st := do(fmt.Sprintf("n %d state", k))
				pos = append(pos, posOf(st))
				if strings.Contains(st, "exit=") && !expectExit[k] {
					c.Fail(fmt.Sprintf("history %d %s: node %d exited: %s", h, what, k, st))
					failed = true
				}
			}
			return pos
		}
		record := func(p *pager, pos string) {
			if pos != "" && !strings.HasPrefix(pos, "0:") && !hist[pos] {
				hist[pos] = true
				do(fmt.Sprintf("hist %s %s", pos, p.refImageDigest()))
			}
		}
		observe := func(what string, writer *pager, writerNode int) {
			if out := do("sync"); out != "ok" {
				c.Fail(fmt.Sprintf("history %d %s: cluster did not settle: %s", h, what, out))
				failed = true
			}
			st := do(fmt.Sprintf("n %d state", writerNode))
			record(writer, posOf(st))
			for k := 0; k < nNodes; k++ {
				do(fmt.Sprintf("n %d state", k))
				do(fmt.Sprintf("n %d ltx", k))
				do(fmt.Sprintf("n %d raw", k))
			}
		}
		do("sync")
		do("n 0 createdb")
		// initial history on the primary; maybe switch to WAL
		for i, k := 0, r.Range(1, 3); i < k; i++ {
			pagerStep(c, P, 4)
			do("sync") // a snapshot being streamed holds the SHARED lock; SQLite would wait for it
		}
		if r.Bool() && !P.wal {
			P.wal = true
			P.journalTx(txShape{newN: len(P.img), pages: map[int]bool{1: true}, commit: true}, 0, 0)
		}
		observe("start", P, primary)
		lockID := 100
		steps := r.Range(3, 7)
		for i := 0; i < steps && !failed; i++ {
			what := fmt.Sprintf("step %d", i)
			rep := 1 + r.Intn(nNodes-1)
			rep = (primary + rep) % nNodes
			lockID++
			id := lockID
			// the replica's application sees the primary's image
			R := mkPager(rep)
			R.img, R.tok = append([][]byte{}, P.img...), append([]string{}, P.tok...)
			R.wal, R.changeCtr = P.wal, P.changeCtr+uint32(1000*(i+1))
			R.owner = 2
			switch k := r.Intn(10); {
			case k < 5: // a halted transaction (or several) from the replica
				var out string
				queued := r.Chance(1, 3)
				if queued {
					// the request arrives while the primary's application is inside a write
					// transaction: it queues behind the application's locks, the application commits,
					// and the lock is granted at the position *after* that commit
					issued := false
					beforeCommit[primary] = func() { issued = true; do(fmt.Sprintf("halt-bg %d %d", rep, id)) }
					pagerStep(c, P, 4)
					delete(beforeCommit, primary)
					if !issued {
						do(fmt.Sprintf("halt-bg %d %d", rep, id))
					}
					// (no observation in between: the grant — with its journal rollback and checkpoint
					// on the primary — happens as soon as the application's last lock is gone)
					out = do(fmt.Sprintf("halt-join %d", rep))
					st := do(fmt.Sprintf("n %d state", primary))
					record(P, posOf(st))
					R.img, R.tok = append([][]byte{}, P.img...), append([]string{}, P.tok...)
					R.wal, R.changeCtr = P.wal, P.changeCtr+uint32(1000*(i+1))
					sig.WriteString(",queued")
					c.Count("halt.queued")
				} else {
					out = do(fmt.Sprintf("halt %d %d", rep, id))
				}
				if queued {
					// the transaction the primary just committed reaches a third node asynchronously
					only = map[int]bool{primary: true, rep: true}
				}
				pp := states(what + " (halted)")
				only = nil
				if !strings.HasPrefix(out, "ok ") {
					c.Fail(fmt.Sprintf("history %d %s: halt lock not granted: %s", h, what, out))
					failed = true
					break
				}
				if out != "ok pos="+pp[primary] || pp[rep] != pp[primary] {
					c.Fail(fmt.Sprintf("history %d %s: halt granted at %s, primary at %s, replica at %s", h, what, out, pp[primary], pp[rep]))
				}
				if r.Chance(1, 3) { // the acquire response was lost: the replica asks again with the same id
					if again := do(fmt.Sprintf("halt %d %d", rep, id)); again != out {
						c.Fail(fmt.Sprintf("history %d %s: repeated acquire answered %q, first %q", h, what, again, out))
					}
				}
				// the primary's own writers and checkpoints are excluded
				if P.wal {
					if got := do(fmt.Sprintf("n %d lock 9 WRITE", primary)); got != "false" {
						c.Fail(fmt.Sprintf("history %d %s: local writer on the primary got the WRITE lock during a halt: %s", h, what, got))
						do(fmt.Sprintf("n %d unlock 9 WRITE", primary))
					}
				} else {
					if got := do(fmt.Sprintf("n %d rlock 9 PENDING", primary)); got != "false" {
						c.Fail(fmt.Sprintf("history %d %s: local reader/writer on the primary passed PENDING during a halt: %s", h, what, got))
						do(fmt.Sprintf("n %d unlock 9 PENDING", primary))
					}
				}
				if got := do(fmt.Sprintf("n %d ckpt", primary)); got != "busy" {
					c.Fail(fmt.Sprintf("history %d %s: checkpoint on the primary during a halt: %s", h, what, got))
				}
				refusals += 2
				for j, nTx := 0, r.Range(1, 2); j < nTx; j++ {
					lastCommit[rep] = ""
					ok, s := pagerStep(c, R, 4)
					if ok && lastCommit[rep] != "" && !strings.HasPrefix(lastCommit[rep], "ok") {
						// the holder of a granted lock must be able to write: a refusal here means the
						// node lost (or never really had) the lock it was told it holds
						c.Fail(fmt.Sprintf("history %d %s: a commit of the halt-lock holder was refused: %s", h, what, lastCommit[rep]))
						failed = true
						break
					}
					only = map[int]bool{primary: true, rep: true}
					pos := states(what + " (after forwarded commit)")
					only = nil
					do("pause") // the primary streams the file back to its author, who skips it under its write lock
					if ok {
						forwarded++
						// applied on the primary under the same id and checksum before the commit returned
						if pos[primary] != pos[rep] {
							c.Fail(fmt.Sprintf("history %d %s: replica committed %s but the primary is at %s when the commit returned", h, what, pos[rep], pos[primary]))
						}
						record(R, pos[rep])
					}
					sig.WriteString(",h" + s)
				}
				do(fmt.Sprintf("unhalt %d %d", rep, id))
				if r.Chance(1, 3) {
					do(fmt.Sprintf("unhalt %d %d", rep, id)) // the release is repeated
				}
				P.img, P.tok, P.wal, P.changeCtr = R.img, R.tok, R.wal, R.changeCtr
				P.restarted() // the halt recovered the primary's journal / WAL
				observe(what+" (released)", P, primary)
				// the primary can write again
				pagerStep(c, P, 4)
				observe(what+" (primary writes)", P, primary)
			case k < 7 && P.wal: // publishing after the lock was released / never held
				held := r.Bool()
				if held {
					do(fmt.Sprintf("halt %d %d", rep, id))
					do(fmt.Sprintf("unhalt %d %d", rep, id))
					P.restarted()
				}
				R.walTx(R.randomShape(3), false, false, false)
				refusals++
				states(what + " (publish without lock)")
				observe(what+" (no lock)", P, primary)
				fmt.Fprintf(&sig, ",nolock%v", held)
			case k >= 7 && k < 9 && (!P.wal || r.Chance(1, 3)): // the lock expires while its holder is cut off; the primary's newer state then arrives as a snapshot
				do(fmt.Sprintf("halt-ttl %d short", primary))
				out := do(fmt.Sprintf("halt %d %d", rep, id))
				do(fmt.Sprintf("halt-ttl %d long", primary))
				if !strings.HasPrefix(out, "ok ") {
					break
				}
				do(fmt.Sprintf("net %d off", rep))
				do(fmt.Sprintf("halt-expire %d", primary))
				P.restarted()
				// the primary moves on by two transactions and its retention sweep removes the first of
				// them: the former holder cannot be sent the file that follows its position
				only = map[int]bool{primary: true}
				for j := 0; j < 2; j++ {
					pagerStep(c, P, 4)
					st := do(fmt.Sprintf("n %d state", primary))
					record(P, posOf(st))
				}
				do(fmt.Sprintf("n %d age", primary))
				do(fmt.Sprintf("n %d retain", primary))
				do(fmt.Sprintf("n %d ltx", primary))
				only = nil
				do(fmt.Sprintf("net %d on", rep))
				observe(what+" (former holder caught up by snapshot)", P, primary)
				// the former holder's application writes: the node has no write authority any more
				R.img, R.tok = append([][]byte{}, P.img...), append([]string{}, P.tok...)
				R.wal, R.changeCtr = P.wal, P.changeCtr+uint32(1000*(i+1))
				if R.wal {
					R.walTx(R.randomShape(3), false, false, false)
				} else {
					R.journalTx(R.randomShape(3), 0, 0)
				}
				refusals++
				expectExit[rep] = true
				st := do(fmt.Sprintf("n %d state", rep))
				delete(expectExit, rep)
				if strings.Contains(st, "exit=") {
					// (a WAL commit that cannot be published stops the node by design; here the write
					// should never have got that far)
					c.Fail(fmt.Sprintf("history %d %s: a write on a former halt-lock holder (lock expired, caught up by snapshot) was accepted up to the commit: %s", h, what, st))
					failed = true
					break
				}
				observe(what+" (former holder refused)", P, primary)
				do(fmt.Sprintf("unhalt %d %d", rep, id))
				observe(what+" (expired, snapshot, released)", P, primary)
				sig.WriteString(",expired-snapshot")
				c.Count("halt.expired-snapshot")
			case k < 9 && P.wal: // the lock expires while the replica still believes to hold it
				do(fmt.Sprintf("halt-ttl %d short", primary))
				out := do(fmt.Sprintf("halt %d %d", rep, id))
				do(fmt.Sprintf("halt-ttl %d long", primary))
				if !strings.HasPrefix(out, "ok ") {
					break
				}
				do(fmt.Sprintf("halt-expire %d", primary))
				P.restarted()
				if r.Bool() {
					// the former holder tries to publish: the primary refuses, the WAL commit of the
					// replica cannot be reported to SQLite, the replica process stops (by design) and
					// is restarted
					R.walTx(R.randomShape(3), false, false, false)
					refusals++
					st := do(fmt.Sprintf("n %d state", rep))
					if !strings.Contains(st, "exit=99") {
						c.Fail(fmt.Sprintf("history %d %s: a commit forwarded under an expired halt lock did not stop the replica: %s", h, what, st))
					}
					do(fmt.Sprintf("n %d state", primary))
					do(fmt.Sprintf("crash %d", rep))
					do(fmt.Sprintf("up %d", rep))
					sig.WriteString(",expired-publish")
				} else {
					sig.WriteString(",expired")
				}
				// the primary can write again; its transaction reaches the former holder
				pagerStep(c, P, 4)
				observe(what+" (primary wrote after expiry)", P, primary)
				do(fmt.Sprintf("unhalt %d %d", rep, id))
				observe(what+" (expired, released)", P, primary)
			case k == 9 && nNodes == 3 && r.Bool(): // a former holder publishes while another node holds the lock
				third := 3 - primary - rep
				do(fmt.Sprintf("halt-ttl %d short", primary))
				out := do(fmt.Sprintf("halt %d %d", rep, id))
				do(fmt.Sprintf("halt-ttl %d long", primary))
				if !strings.HasPrefix(out, "ok ") {
					break
				}
				do(fmt.Sprintf("halt-expire %d", primary)) // the primary commits nothing: the first holder does not notice
				P.restarted()
				lockID++
				out2 := do(fmt.Sprintf("halt %d %d", third, lockID))
				if !strings.HasPrefix(out2, "ok ") {
					c.Fail(fmt.Sprintf("history %d %s: halt lock not granted to the second node after the first expired: %s", h, what, out2))
					break
				}
				// the former holder commits with its stale lock id
				if R.wal {
					R.walTx(R.randomShape(3), false, false, false)
				} else {
					R.journalTx(R.randomShape(3), 0, 0)
				}
				refusals++
				only = map[int]bool{primary: true, third: true, rep: true}
				expectExit[rep] = true
				pos := states(what + " (former holder published)")
				only = nil
				delete(expectExit, rep)
				if pos[primary] != strings.TrimPrefix(out2, "ok pos=") {
					c.Fail(fmt.Sprintf("history %d %s: the primary moved to %s while node %d holds the halt lock granted at %s", h, what, pos[primary], third, out2))
				}
				do(fmt.Sprintf("crash %d", rep))
				do(fmt.Sprintf("up %d", rep))
				// the real holder commits
				T := mkPager(third)
				T.img, T.tok, T.wal, T.changeCtr = append([][]byte{}, P.img...), append([]string{}, P.tok...), P.wal, P.changeCtr+9000
				T.owner = 3
				if ok, _ := pagerStep(c, T, 4); ok {
					forwarded++
				}
				only = map[int]bool{primary: true, third: true}
				ps2 := states(what + " (holder committed)")
				only = nil
				record(T, ps2[third])
				do("pause")
				do(fmt.Sprintf("unhalt %d %d", third, lockID))
				P.img, P.tok, P.wal, P.changeCtr = T.img, T.tok, T.wal, T.changeCtr
				P.restarted()
				observe(what+" (second holder released)", P, primary)
				sig.WriteString(",stale-vs-holder")
			default: // primary change while a halt is held (3 nodes: the third node takes over)
				if nNodes < 3 {
					continue
				}
				third := 3 - primary - rep
				do(fmt.Sprintf("halt-ttl %d short", primary))
				out := do(fmt.Sprintf("halt %d %d", rep, id))
				do(fmt.Sprintf("halt-ttl %d long", primary))
				if !strings.HasPrefix(out, "ok ") {
					break
				}
				do("allow -1")
				do(fmt.Sprintf("demote %d", primary))
				do(fmt.Sprintf("allow %d", third))
				primary = third
				NP := mkPager(third)
				NP.img, NP.tok, NP.wal, NP.changeCtr = append([][]byte{}, P.img...), append([]string{}, P.tok...), P.wal, P.changeCtr+500
				NP.restarted()
				P = NP
				do("sync")
				pagerStep(c, P, 4)
				observe(what+" (new primary wrote, old halt outstanding)", P, primary)
				do(fmt.Sprintf("unhalt %d %d", rep, id))
				observe(what+" (stale halt released)", P, primary)
				sig.WriteString(",pchange")
			}
		}
		cs.End()
		if forwarded >= 2 && refusals >= 2 {
			c.Nontrivial(sig.String())
		}
	}
	return nil
}

// directedHaltCatchUp: the halt lock is granted at a position the requesting replica has not
// reached yet (the primary committed just before; the transaction is still in flight on the
// replication stream when the grant arrives).  The replica must apply what is in flight, end
// up holding the lock at exactly the primary's position, and be able to write.
func directedHaltCatchUp(c *Ctx) {
	r := c.Rng
	for _, wal := range []bool{false, true} {
		for _, inFlight := range []int{1, 2} {
			cs := c.Begin()
			do := func(op string) string { c.Count("op." + strings.Fields(op)[0]); return cs.Do(op) }
			what := fmt.Sprintf("halt catch-up (wal=%v, %d in flight)", wal, inFlight)
			lastCommit := ""
			mk := func(k int) *pager {
				p := newPager(r, 1024, func(op string) string {
					out := do(fmt.Sprintf("n %d %s", k, op))
					if op == "jrm" || op == "jtr" || strings.HasSuffix(op, " WRITE") && strings.HasPrefix(op, "unlock ") {
						lastCommit = out
					}
					return out
				})
				p.journalMode = "DELETE"
				return p
			}
			hist := map[string]bool{}
			record := func(p *pager, st string) {
				if pos := posOf(st); pos != "" && !strings.HasPrefix(pos, "0:") && !hist[pos] {
					hist[pos] = true
					do(fmt.Sprintf("hist %s %s", pos, p.refImageDigest()))
				}
			}
			do("cluster 2")
			do("allow 0")
			do("up 0")
			do("up 1")
			do("sync")
			do("n 0 createdb")
			P := mk(0)
			P.journalTx(P.randomShape(4), 0, 0)
			record(P, do("n 0 state"))
			do("sync")
			if wal {
				P.wal = true
				P.journalTx(txShape{newN: len(P.img), pages: map[int]bool{1: true}, commit: true}, 0, 0)
				record(P, do("n 0 state"))
				do("sync")
			}
			do("n 0 state")
			do("n 1 state")
			// the primary commits while nothing reaches the replica
			do("stream-hold 1")
			for i := 0; i < inFlight; i++ {
				s := P.randomShape(3)
				if wal {
					P.walTx(s, false, false, false)
				} else {
					P.journalTx(s, 0, 0)
				}
				record(P, do("n 0 state"))
			}
			do("halt-bg 1 500") // granted at once, at the primary's new position
			do("stream-release 1")
			out := do("halt-join 1")
			st0, st1 := do("n 0 state"), do("n 1 state")
			if !strings.HasPrefix(out, "ok ") || out != "ok pos="+posOf(st0) || posOf(st1) != posOf(st0) {
				c.Fail(fmt.Sprintf("%s: halt answered %q, primary at %s, replica at %s", what, out, posOf(st0), posOf(st1)))
			}
			// the holder writes
			R := mk(1)
			R.img, R.tok = append([][]byte{}, P.img...), append([]string{}, P.tok...)
			R.wal, R.changeCtr, R.owner = P.wal, P.changeCtr+5000, 2
			for i := 0; i < 2; i++ {
				lastCommit = ""
				s := R.randomShape(3)
				if wal {
					R.walTx(s, false, false, false)
				} else {
					R.journalTx(s, 0, 0)
				}
				a, b := do("n 0 state"), do("n 1 state")
				if !strings.HasPrefix(lastCommit, "ok") || strings.Contains(b, "exit=") || posOf(a) != posOf(b) {
					c.Fail(fmt.Sprintf("%s: the holder's commit answered %q; primary %s, holder %s", what, lastCommit, a, b))
				}
				record(R, b)
				do("pause")
			}
			do("unhalt 1 500")
			do("sync")
			for k := 0; k < 2; k++ {
				do(fmt.Sprintf("n %d state", k))
				do(fmt.Sprintf("n %d ltx", k))
				do(fmt.Sprintf("n %d raw", k))
			}
			cs.End()
			c.Count("directed.halt-catch-up")
			c.Nontrivial(fmt.Sprintf("directed-halt-catch-up|%v|%d", wal, inFlight))
		}
	}
}

// directedHaltRecoveryFault: the recovery step of a halt acquisition on the primary fails (a
// journal left behind whose header names another page size cannot be rolled back): the request
// is refused, and nothing of the halt may stay behind — a retry with the same lock id must not be
// answered "granted" unless the primary really holds its write lock for the caller, so local
// readers and writers on the primary are either all refused (granted) or admitted (refused).
func directedHaltRecoveryFault(c *Ctx) {
	r := c.Rng
	for _, wal := range []bool{false, true} {
		cs := c.Begin()
		do := func(op string) string { c.Count("op." + strings.Fields(op)[0]); return cs.Do(op) }
		what := fmt.Sprintf("halt recovery fault (wal=%v)", wal)
		p := newPager(r, 1024, func(op string) string { return do("n 0 " + op) })
		p.journalMode = "DELETE"
		do("cluster 2")
		do("allow 0")
		do("up 0")
		do("up 1")
		do("sync")
		do("n 0 createdb")
		p.journalTx(p.randomShape(4), 0, 0)
		if wal {
			p.wal = true
			p.journalTx(txShape{newN: len(p.img), pages: map[int]bool{1: true}, commit: true}, 0, 0)
			p.walTx(p.randomShape(3), false, false, false) // the WAL file exists from now on
		}
		do("sync")
		st0 := do("n 0 state")
		do(fmt.Sprintf("hist %s %s", posOf(st0), p.refImageDigest()))
		do("n 1 state")
		// a journal whose header is valid but names a page size of 4096 (the database has 1024)
		hdr := "d9d505f920a163d7" + "00000001" + "0badcafe" + "00000002" + "00000200" + "00001000" + "+z484+z1024"
		do("n 0 plant journal " + hdr)
		first := do("halt 1 700")
		for attempt := 0; attempt < 2; attempt++ {
			out := do("halt 1 700") // the replica's interrupted call is retried with the same id
			granted := strings.HasPrefix(out, "ok ")
			var got string
			if wal {
				got = do("n 0 lock 9 WRITE")
			} else {
				got = do("n 0 rlock 9 PENDING")
			}
			if granted && got != "false" {
				c.Fail(fmt.Sprintf("%s: the retried halt request was answered %q (first answer %q) but a local connection on the primary got its lock: the primary does not hold the locks of the halt it reports", what, out, first))
			}
			if got != "false" {
				if wal {
					do("n 0 unlock 9 WRITE")
				} else {
					do("n 0 unlock 9 PENDING")
				}
			}
			if granted {
				do("unhalt 1 700")
			}
		}
		do("n 0 state")
		do("n 1 state")
		cs.End()
		c.Count("directed.halt-recovery-fault")
		c.Nontrivial(fmt.Sprintf("directed-halt-recovery-fault-%v", wal))
	}
}

// directedInterruptedRelease: the holder's release of the halt lock is interrupted (the request's
// context is cancelled, as a FUSE INTERRUPT or a dropped connection does) — either while the
// holder's own recovery waits behind an application connection or right before the request to the
// primary — and is then retried (or the lock file is closed).  After the retry the lock is gone on
// both sides: the primary can write again and the former holder cannot.
func directedInterruptedRelease(c *Ctx) {
	r := c.Rng
	for _, blocked := range []bool{true, false} {
		for _, short := range []bool{false, true} {
			cs := c.Begin()
			do := func(op string) string { c.Count("op." + strings.Fields(op)[0]); return cs.Do(op) }
			what := fmt.Sprintf("interrupted release (blocked=%v, short=%v)", blocked, short)
			mk := func(k int) *pager {
				p := newPager(r, 1024, func(op string) string { return do(fmt.Sprintf("n %d %s", k, op)) })
				p.journalMode = "DELETE"
				return p
			}
			hist := map[string]bool{}
			record := func(p *pager, st string) {
				if pos := posOf(st); pos != "" && !strings.HasPrefix(pos, "0:") && !hist[pos] {
					hist[pos] = true
					do(fmt.Sprintf("hist %s %s", pos, p.refImageDigest()))
				}
			}
			do("cluster 2")
			do("allow 0")
			do("up 0")
			do("up 1")
			do("sync")
			do("n 0 createdb")
			P := mk(0)
			P.journalTx(P.randomShape(4), 0, 0)
			record(P, do("n 0 state"))
			do("sync")
			do("n 1 state")
			if short {
				do("halt-ttl 0 short")
			}
			out := do("halt 1 900")
			if short {
				do("halt-ttl 0 long")
			}
			if !strings.HasPrefix(out, "ok ") {
				c.Fail(what + ": halt lock not granted: " + out)
				cs.End()
				continue
			}
			// one forwarded transaction
			R := mk(1)
			R.img, R.tok = append([][]byte{}, P.img...), append([]string{}, P.tok...)
			R.changeCtr = P.changeCtr + 1000
			R.owner = 2
			R.journalTx(R.randomShape(3), 0, 0)
			record(R, do("n 1 state"))
			do("n 0 state")
			do("pause")
			P.img, P.tok, P.changeCtr = R.img, R.tok, R.changeCtr
			if blocked {
				// another connection of the holder's application is reading
				do("n 1 rlock 5 PENDING")
				do("n 1 rlock 5 SHARED")
				do("n 1 unlock 5 PENDING")
			}
			if got := do("unhalt-intr 1 900"); got != "eintr" {
				c.Fail(what + ": the interrupted release answered " + got)
			}
			if blocked {
				do("n 1 unlock 5 SHARED")
			}
			do("unhalt 1 900") // the retry (or the close of the lock file)
			if short {
				do("halt-expire 0")
			}
			P.restarted()
			do("sync")
			do("n 0 state")
			do("n 1 state")
			// the former holder cannot write any more (before anything else arrives from the primary)
			W := mk(1)
			W.img, W.tok = append([][]byte{}, P.img...), append([]string{}, P.tok...)
			W.changeCtr = P.changeCtr + 2000
			W.owner = 3
			W.journalTx(W.randomShape(3), 0, 0)
			do("n 1 state")
			do("n 1 raw")
			do("n 0 state")
			// the primary is no longer halted
			if got := do("n 0 rlock 9 PENDING"); got != "true" {
				c.Fail(what + ": the holder released the halt lock (release retried after an interruption) but the primary still refuses its own connections: " + got)
			} else {
				do("n 0 unlock 9 PENDING")
			}
			pagerStep(c, P, 3)
			record(P, do("n 0 state"))
			do("sync")
			do("n 1 state")
			do("n 1 raw")
			cs.End()
			c.Count("directed.interrupted-release")
			c.Nontrivial(fmt.Sprintf("directed-interrupted-release-%v-%v", blocked, short))
		}
	}
}
