package main

import (
	"fmt"
	"os"
	"path/filepath"
	"strings"
	"sync"

	"github.com/superfly/litefs"
	"github.com/superfly/litefs/internal"
)

// crashOS wraps the store's OS layer: while a crash window is open, the data directory is
// copied before every call (what a process dying at that point leaves behind).
type crashOS struct {
	internal.SystemOS
	m *engineImpl
}

func (o *crashOS) snap(what string) { o.m.snapshot(what) }

func (o *crashOS) Create(op, name string) (*os.File, error) {
	o.snap("create:" + op)
	return o.SystemOS.Create(op, name)
}
func (o *crashOS) Mkdir(op, path string, perm os.FileMode) error {
	o.snap("mkdir:" + op)
	return o.SystemOS.Mkdir(op, path, perm)
}
func (o *crashOS) MkdirAll(op, path string, perm os.FileMode) error {
	o.snap("mkdirall:" + op)
	return o.SystemOS.MkdirAll(op, path, perm)
}
func (o *crashOS) Open(op, name string) (*os.File, error) {
	o.snap("open:" + op)
	return o.SystemOS.Open(op, name)
}
func (o *crashOS) OpenFile(op, name string, flag int, perm os.FileMode) (*os.File, error) {
	o.snap("openfile:" + op)
	return o.SystemOS.OpenFile(op, name, flag, perm)
}
func (o *crashOS) Remove(op, name string) error {
	o.snap("remove:" + op)
	return o.SystemOS.Remove(op, name)
}
func (o *crashOS) RemoveAll(op, name string) error {
	o.snap("removeall:" + op)
	return o.SystemOS.RemoveAll(op, name)
}
func (o *crashOS) Rename(op, oldpath, newpath string) error {
	o.snap("rename:" + op)
	return o.SystemOS.Rename(op, oldpath, newpath)
}
func (o *crashOS) Truncate(op, name string, size int64) error {
	o.snap("truncate:" + op)
	return o.SystemOS.Truncate(op, name, size)
}
func (o *crashOS) WriteFile(op, name string, data []byte, perm os.FileMode) error {
	o.snap("writefile:" + op)
	return o.SystemOS.WriteFile(op, name, data, perm)
}

type crashSnap struct {
	dir   string
	label string
	opIdx int
}

var crashMu sync.Mutex
var crashActive *engineImpl // the instance whose window is open (the page-write hook is global)

func init() {
	litefs.VerifCrashPoint = func(op string) {
		crashMu.Lock()
		m := crashActive
		crashMu.Unlock()
		if m != nil {
			m.snapshot("hook:" + op)
		}
	}
}

func (m *engineImpl) snapshot(label string) {
	if !m.crashing || m.inSnap {
		return
	}
	m.inSnap = true
	defer func() { m.inSnap = false }()
	if len(m.snaps) >= 4000 {
		return
	}
	d, err := os.MkdirTemp(os.Getenv("VERIF_SCRATCH"), "verif-snap-")
	if err != nil {
		return
	}
	if err := copyTree(filepath.Join(m.dir, "data"), filepath.Join(d, "data")); err != nil {
		_ = os.RemoveAll(d)
		return
	}
	m.snaps = append(m.snaps, crashSnap{dir: d, label: label, opIdx: m.opCount})
}

func (m *engineImpl) dropSnaps() {
	for _, s := range m.snaps {
		_ = os.RemoveAll(s.dir)
	}
	m.snaps = nil
}

// crashpoint opens a fresh store on snapshot k and reports what it recovered to.
func (m *engineImpl) crashpoint(k int) string {
	if k < 0 || k >= len(m.snaps) {
		return "bad-op"
	}
	s := m.snaps[k]
	r := &engineImpl{c: m.c, dir: s.dir}
	defer func() {
		r.closeFiles()
		_ = os.RemoveAll(filepath.Join(s.dir, "data", "dbs")) // see engineImpl.Close
		if r.store != nil {
			_ = r.store.Close()
		}
	}()
	pre := "before"
	if m.commitSnap >= 0 && k >= m.commitSnap {
		pre = "after"
	}
	head := fmt.Sprintf("at=%s(%s) ", strings.SplitN(s.label, ":", 2)[0], pre)
	if err := r.openStore(m.role); err != nil {
		return head + "open=err " + oneLine(err.Error())
	}
	if r.db == nil {
		return head + "open=ok nodb"
	}
	st := r.state()
	raw := r.rawChecksum()
	lt := r.ltxLast()
	// the restarted node can commit again: one small rollback-journal style no-op is too invasive;
	// instead check that the write lock can be taken and released (nothing is left locked or hot).
	next := "ok"
	if gs := r.db.TryAcquireWriteLock(); gs == nil {
		next = "locked"
	} else {
		gs.Unlock()
	}
	raw = strings.Replace(strings.Replace(raw, "chk=", "rchk=", 1), "img=", "rimg=", 1)
	raw = strings.Replace(raw, "pageN=", "rpageN=", 1)
	return head + "open=ok " + st + " " + raw + " last=" + lt + " next=" + next
}

func (m *engineImpl) ltxLast() string {
	l := m.ltxListing()
	if l == "[]" || !strings.HasPrefix(l, "[") {
		return "-"
	}
	// the newest file is the one with the highest max TXID (not the last in name order: a
	// snapshot 1-6 sorts before 3-3)
	parts := strings.Split(strings.TrimSuffix(strings.TrimPrefix(l, "["), "]"), " | ")
	best, bestMax := "?", int64(-1)
	for _, part := range parts {
		f := strings.Fields(part)
		if len(f) < 3 {
			return "?"
		}
		var a, b int64
		if _, err := fmt.Sscanf(f[0], "%d-%d", &a, &b); err != nil {
			return "?"
		}
		if b > bestMax {
			best, bestMax = f[0]+":"+strings.TrimPrefix(f[2], "post="), b
		}
	}
	return best
}
