package main

import (
	"fmt"
	"strings"
)

func init() {
	register(&Suite{Name: "engine", Gen: genEngine, New: func(c *Ctx) Runner { return &engineRunner{engineImpl{c: c}} }})
}

// engineRunner adds the `ref` pseudo-operation (reference image from the pager simulator; the
// implementation ignores it, the spec checker uses it).
type engineRunner struct{ engineImpl }

func (r *engineRunner) Do(line string) string {
	if strings.HasPrefix(line, "ref ") || line == "expect-recovered" || line == "expect-either" || line == "ref-restart" || line == "ref-unknown" {
		return "ok"
	}
	return r.engineImpl.Do(line)
}

var enginePageSizes = []int{512, 1024, 4096, 8192, 65536}

// observe emits the observation ops after a transaction and applies the Go-side oracles.
func observe(c *Ctx, cs *Case, p *pager, what string) {
	cs.Do(p.refLine())
	st := cs.Do("state")
	lt := cs.Do("ltx")
	raw := cs.Do("raw")
	if strings.Contains(st, "exit=") {
		c.Fail(fmt.Sprintf("%s: store exited: %s", what, st))
		return
	}
	// oracle: raw on-disk logical image == pager reference
	want := p.refImageDigest()
	if !strings.Contains(raw, "img="+want) {
		c.Fail(fmt.Sprintf("%s: on-disk image %q differs from what SQLite sees %q", what, raw, want))
	}
	// oracle: reported checksum == from-scratch checksum
	if i := strings.Index(raw, "chk="); i >= 0 && len(raw) >= i+20 {
		chk := raw[i+4 : i+20]
		if !strings.Contains(st, ":"+chk+" ") {
			c.Fail(fmt.Sprintf("%s: position checksum differs from from-scratch checksum: state=%q raw=%q", what, st, raw))
		}
	}
	if strings.Contains(lt, ":invalid") || strings.Contains(lt, ":misnamed") || strings.Contains(lt, "unreadable") {
		c.Fail(fmt.Sprintf("%s: invalid LTX file in log: %s", what, lt))
	}
}

func genEngine(c *Ctx) error {
	c.Stats.Rule = "pager-simulator histories on a real primary Store/DB: rollback-journal transactions (DELETE/TRUNCATE/PERSIST, spills, rollbacks, grow/shrink across 256-page blocks) and WAL transactions (repeated pages, split frame writes, rolled-back frames, SQLite checkpoints with restart/truncate, LiteFS checkpoints), drop/recreate, export/snapshot; page sizes 512..65536. Non-trivial = history with at least 2 committed transactions; distinct = distinct op list."
	r := c.Rng
	nHist := 60
	if c.Tier == "thorough" {
		nHist = 600
	}
	walFocus, journalFocus := c.Flag("wal"), c.Flag("journal")
	if !journalFocus && !c.Flag("drop") {
		directedWALShrink(c)
		directedWALGrowShrinkCheckpoint(c)
		directedWALRestartRollback(c)
		directedModeRoundTrip(c)
	}
	if c.Flag("drop") {
		directedDropRestart(c)
	} else {
		directedBlockBoundary(c, walFocus)
	}
	for h := 0; h < nHist; h++ {
		ps := pick(r, enginePageSizes)
		if ps == 65536 && r.Chance(2, 3) {
			ps = 4096
		}
		cs := c.Begin()
		var sig strings.Builder
		do := func(op string) string {
			obs := cs.Do(op)
			k := strings.SplitN(op, " ", 2)[0]
			c.Count("op." + k)
			return obs
		}
		p := newPager(r, ps, do)
		p.journalMode = pick(r, []string{"DELETE", "TRUNCATE", "PERSIST"})
		p.nosync = r.Chance(1, 6)
		p.walBig = r.Bool()
		p.closeRelease = true
		p.exclusiveMode = r.Chance(1, 3)
		do("open primary")
		do("createdb")
		maxGrow := 6
		if r.Chance(1, 4) {
			maxGrow = 300
		}
		if ps >= 8192 {
			maxGrow = 4
		}
		commits := 0
		steps := r.Range(3, 10)
		if walFocus {
			steps = r.Range(6, 16)
		}
		fmt.Fprintf(&sig, "ps=%d,%s", ps, p.journalMode)
		for i := 0; i < steps; i++ {
			if len(p.img) > 0 && (r.Chance(1, 12) || (c.Flag("drop") && r.Chance(1, 4))) && !c.Flag("nodrop") {
				// delete the database, then create it again under the same name
				do("drop")
				p.dropped()
				c.Count("drop")
				sig.WriteString(",drop")
				observe(c, cs, p, fmt.Sprintf("history %d step %d (drop)", h, i))
				do("createdb")
				continue
			}
			if commits > 0 && r.Chance(1, 9) && !c.Flag("norestart") {
				// clean restart on the same data directory
				do("reopen")
				p.restarted()
				if len(p.img) == 0 {
					do("createdb") // the application opens the (deleted or never written) database again
				}
				c.Count("reopen")
				sig.WriteString(",reopen")
				observe(c, cs, p, fmt.Sprintf("history %d step %d (restart)", h, i))
				continue
			}
			if commits > 0 && r.Chance(1, 10) {
				if r.Bool() {
					do(fmt.Sprintf("stray %d", r.Range(1, 5)))
					c.Count("stray")
				}
				do("age")
				do("retain")
				c.Count("retain")
				sig.WriteString(",ret")
				observe(c, cs, p, fmt.Sprintf("history %d step %d (retention)", h, i))
				continue
			}
			if !p.wal {
				s := p.randomShape(maxGrow)
				spill, rb := 0, 0
				if r.Chance(1, 4) {
					spill = r.Range(1, 3)
				}
				if r.Chance(1, 6) && len(p.img) > 0 {
					rb = r.Range(1, 2)
				}
				if spill > 0 && r.Chance(1, 3) {
					s.tempN = max(len(p.img), s.newN) + r.Range(1, 4)
					c.Count("tx.journal.spill-beyond")
				}
				toWAL := r.Chance(1, 5) && len(p.img) > 0 && rb == 0 && !journalFocus
				if walFocus && len(p.img) > 0 && rb == 0 {
					toWAL = true
				}
				if toWAL {
					p.wal = true // page 1 of this transaction carries the WAL version bytes
					s.newN = max(s.newN, len(p.img))
				}
				p.journalTx(s, spill, rb)
				if rb == 0 {
					commits++
					c.Count("tx.journal." + p.journalMode)
					if spill > 0 {
						c.Count("tx.journal.spill")
					}
					if s.newN < len(p.img) {
						c.Count("tx.shrink")
					}
				} else {
					c.Count(fmt.Sprintf("tx.journal.rollback%d", rb))
				}
				if toWAL {
					c.Count("tx.to-wal")
				}
				fmt.Fprintf(&sig, ",j%d/%d/%d", s.newN, spill, rb)
			} else {
				switch {
				case r.Chance(1, 10) && !walFocus:
					if p.toRollback() {
						commits++
						c.Count("tx.to-rollback")
						sig.WriteString(",torb")
					}
				case (r.Chance(1, 6) || (walFocus && r.Chance(1, 4))) && len(p.walPages) > 0:
					restart := r.Chance(2, 3)
					p.sqliteCheckpoint(restart, restart && r.Chance(1, 3))
					c.Count("ckpt.sqlite")
					fmt.Fprintf(&sig, ",ck%v", restart)
				case r.Chance(1, 8):
					do("ckpt")
					p.walInit = false // the log is truncated to zero if it exists
					p.walPages = map[uint32][]byte{}
					p.walOff = 0
					c.Count("ckpt.litefs")
					sig.WriteString(",lck")
				default:
					s := p.randomShape(maxGrow)
					rb := r.Chance(1, 6)
					p.walTx(s, rb, r.Chance(1, 3), r.Chance(1, 4))
					if !rb {
						commits++
						c.Count("tx.wal")
						if s.newN < len(p.img) {
							c.Count("tx.shrink")
						}
					} else {
						c.Count("tx.wal.rollback")
					}
					fmt.Fprintf(&sig, ",w%d/%v", s.newN, rb)
				}
			}
			observe(c, cs, p, fmt.Sprintf("history %d step %d", h, i))
			if r.Chance(1, 5) {
				ex := do("export")
				if !strings.Contains(ex, "img="+p.refImageDigest()) {
					c.Fail(fmt.Sprintf("history %d step %d: export %q differs from what SQLite sees %q", h, i, ex, p.refImageDigest()))
				}
			}
			if r.Chance(1, 6) {
				do("snapshot")
			}
		}
		cs.End()
		if commits >= 2 {
			c.Nontrivial(sig.String())
		}
	}
	return nil
}

// directedWALShrink: a WAL-mode database whose pages all live in the database file shrinks inside
// its last 256-page checksum block by a transaction that rewrites only page 1 (what an
// incremental vacuum of trailing free pages does); then more transactions at the new size, a
// checkpoint and growth back over the cut pages.
func directedWALShrink(c *Ctx) {
	r := c.Rng
	for _, ps := range []int{512, 4096} {
		for _, cut := range []int{1, 87, 200} {
			cs := c.Begin()
			do := func(op string) string { c.Count("op." + strings.SplitN(op, " ", 2)[0]); return cs.Do(op) }
			p := newPager(r, ps, do)
			do("open primary")
			do("createdb")
			n := 300 + r.Intn(200)
			all := txShape{newN: n, pages: map[int]bool{}, commit: true}
			for pg := 1; pg <= n; pg++ {
				all.pages[pg] = true
			}
			p.journalTx(all, 0, 0)
			observe(c, cs, p, "directed wal-shrink: fill")
			p.wal = true
			p.journalTx(txShape{newN: n, pages: map[int]bool{1: true}, commit: true}, 0, 0)
			observe(c, cs, p, "directed wal-shrink: to wal")
			p.walTx(txShape{newN: n - cut, pages: map[int]bool{1: true}, commit: true}, false, false, false)
			observe(c, cs, p, "directed wal-shrink: shrink")
			p.walTx(txShape{newN: n - cut, pages: map[int]bool{1: true, 2: true}, commit: true}, false, false, false)
			observe(c, cs, p, "directed wal-shrink: same size")
			if r.Bool() {
				p.sqliteCheckpoint(true, false)
			} else {
				do("ckpt")
				p.walInit = false
				p.walPages = map[uint32][]byte{}
				p.walOff = 0
			}
			observe(c, cs, p, "directed wal-shrink: checkpoint")
			// a transaction in a fresh WAL generation that stays away from the checksum block(s) the
			// cut pages belonged to: their blocks are summed from the cache, not page by page
			p.walTx(txShape{newN: n - cut, pages: map[int]bool{1: true}, commit: true}, false, false, false)
			observe(c, cs, p, "directed wal-shrink: page 1 only after the checkpoint")
			grow := txShape{newN: n + 3, pages: map[int]bool{1: true}, commit: true}
			for pg := n - cut + 1; pg <= n+3; pg++ {
				grow.pages[pg] = true
			}
			p.walTx(grow, false, false, false)
			observe(c, cs, p, "directed wal-shrink: grow back")
			c.Count("directed.wal-shrink")
			c.Nontrivial(fmt.Sprintf("directed-wal-shrink-%d-%d", ps, cut))
			cs.End()
		}
	}
}

// directedBlockBoundary: a database of several 256-page checksum blocks; transactions that touch,
// besides page 1, only the last page of a block (256k), only the first page of the next (256k+1),
// or both: the cached block sums of exactly the touched blocks must be recomputed.
func directedBlockBoundary(c *Ctx, wal bool) {
	r := c.Rng
	for _, ps := range []int{512, 1024} {
		cs := c.Begin()
		do := func(op string) string { c.Count("op." + strings.SplitN(op, " ", 2)[0]); return cs.Do(op) }
		p := newPager(r, ps, do)
		do("open primary")
		do("createdb")
		n := 770 + r.Intn(60)
		all := txShape{newN: n, pages: map[int]bool{}, commit: true}
		for pg := 1; pg <= n; pg++ {
			all.pages[pg] = true
		}
		p.journalTx(all, 0, 0)
		observe(c, cs, p, "directed block-boundary: fill")
		if wal {
			p.wal = true
			p.journalTx(txShape{newN: n, pages: map[int]bool{1: true}, commit: true}, 0, 0)
			observe(c, cs, p, "directed block-boundary: to wal")
		}
		for _, pages := range [][]int{{512}, {257}, {256}, {768}, {513}, {256, 257}, {512, 513}, {511}, {769}} {
			sh := txShape{newN: n, pages: map[int]bool{1: true}, commit: true}
			for _, pg := range pages {
				sh.pages[pg] = true
			}
			if wal {
				p.walTx(sh, false, false, false)
			} else {
				p.journalTx(sh, 0, 0)
			}
			observe(c, cs, p, fmt.Sprintf("directed block-boundary: transaction on pages 1 and %v of %d", pages, n))
		}
		if wal {
			do("ckpt")
			p.walInit = false
			p.walPages = map[uint32][]byte{}
			p.walOff = 0
			observe(c, cs, p, "directed block-boundary: checkpoint")
		}
		c.Count("directed.block-boundary")
		c.Nontrivial(fmt.Sprintf("directed-block-boundary-%d-%v", ps, wal))
		cs.End()
	}
}

// directedDropRestart: a database is dropped and the node restarts before anything else happens
// to it: the node must still be able to serve the (empty) snapshot of the dropped database to a
// replica that joins afterwards, and the database can be created again on top of the tombstone.
func directedDropRestart(c *Ctx) {
	r := c.Rng
	for _, ps := range []int{512, 4096} {
		for _, again := range []bool{false, true} {
			cs := c.Begin()
			do := func(op string) string { c.Count("op." + strings.SplitN(op, " ", 2)[0]); return cs.Do(op) }
			p := newPager(r, ps, do)
			do("open primary")
			do("createdb")
			p.journalTx(p.randomShape(5), 0, 0)
			p.journalTx(p.randomShape(3), 0, 0)
			observe(c, cs, p, "directed drop-restart: populated")
			do("drop")
			p.dropped()
			observe(c, cs, p, "directed drop-restart: dropped")
			do("snapshot")
			do("reopen")
			p.restarted()
			observe(c, cs, p, "directed drop-restart: restarted")
			do("snapshot")
			if again {
				do("drop") // dropping what is already dropped: one more tombstone or a refusal, never a stop
				observe(c, cs, p, "directed drop-restart: dropped again")
				do("snapshot")
			}
			do("createdb")
			p.journalTx(p.randomShape(4), 0, 0)
			observe(c, cs, p, "directed drop-restart: created again")
			do("snapshot")
			c.Count("directed.drop-restart")
			c.Nontrivial(fmt.Sprintf("directed-drop-restart-%d-%v", ps, again))
			cs.End()
		}
	}
}

// directedWALGrowShrinkCheckpoint: one WAL generation holds a transaction that grows the database
// and a later one that shrinks it below pages the first one wrote (growth followed by a vacuum);
// then LiteFS checkpoints (the live path: halt, lease change, Checkpoint) and the node restarts.
// After the checkpoint the database file is exactly the last commit's pages.
func directedWALGrowShrinkCheckpoint(c *Ctx) {
	r := c.Rng
	for _, ps := range []int{512, 4096} {
		for _, restartFirst := range []bool{false, true} {
			cs := c.Begin()
			do := func(op string) string { c.Count("op." + strings.SplitN(op, " ", 2)[0]); return cs.Do(op) }
			p := newPager(r, ps, do)
			do("open primary")
			do("createdb")
			n := r.Range(3, 8)
			all := txShape{newN: n, pages: map[int]bool{}, commit: true}
			for pg := 1; pg <= n; pg++ {
				all.pages[pg] = true
			}
			p.journalTx(all, 0, 0)
			p.wal = true
			p.journalTx(txShape{newN: n, pages: map[int]bool{1: true}, commit: true}, 0, 0)
			observe(c, cs, p, "directed wal grow-shrink: to wal")
			grow := txShape{newN: n + 2, pages: map[int]bool{1: true, n + 1: true, n + 2: true}, commit: true}
			p.walTx(grow, false, false, false)
			observe(c, cs, p, "directed wal grow-shrink: grown")
			cut := r.Range(1, n-1)
			p.walTx(txShape{newN: n - cut, pages: map[int]bool{1: true}, commit: true}, false, false, false)
			observe(c, cs, p, "directed wal grow-shrink: shrunk")
			if restartFirst {
				do("reopen")
				p.restarted()
				observe(c, cs, p, "directed wal grow-shrink: restarted")
			}
			do("ckpt")
			p.walInit = false
			p.walPages = map[uint32][]byte{}
			p.walOff = 0
			observe(c, cs, p, "directed wal grow-shrink: checkpoint")
			p.walTx(txShape{newN: n - cut + 1, pages: map[int]bool{1: true, n - cut + 1: true}, commit: true}, false, false, false)
			observe(c, cs, p, "directed wal grow-shrink: one more transaction")
			do("reopen")
			p.restarted()
			observe(c, cs, p, "directed wal grow-shrink: restarted at the end")
			c.Count("directed.wal-grow-shrink")
			c.Nontrivial(fmt.Sprintf("directed-wal-grow-shrink-%d-%v", ps, restartFirst))
			cs.End()
		}
	}
}

// directedWALRestartRollback: committed frames sit in the WAL; SQLite checkpoints them all and the
// next writer restarts the log (new header, frames from the start) but rolls back after spilling
// uncommitted frames over the old ones.  Exports and snapshots taken then — before any further
// commit — must still be the committed image; then a commit in the restarted log.
func directedWALRestartRollback(c *Ctx) {
	r := c.Rng
	for _, ps := range []int{512, 4096} {
		cs := c.Begin()
		do := func(op string) string { c.Count("op." + strings.SplitN(op, " ", 2)[0]); return cs.Do(op) }
		p := newPager(r, ps, do)
		do("open primary")
		do("createdb")
		n := r.Range(4, 7)
		all := txShape{newN: n, pages: map[int]bool{}, commit: true}
		for pg := 1; pg <= n; pg++ {
			all.pages[pg] = true
		}
		p.journalTx(all, 0, 0)
		p.wal = true
		p.journalTx(txShape{newN: n, pages: map[int]bool{1: true}, commit: true}, 0, 0)
		p.walTx(txShape{newN: n, pages: map[int]bool{1: true, 2: true, 3: true}, commit: true}, false, false, false)
		p.walTx(txShape{newN: n, pages: map[int]bool{1: true, 2: true, 4: true}, commit: true}, false, false, false)
		observe(c, cs, p, "directed wal restart-rollback: two transactions in the log")
		p.sqliteCheckpoint(true, false) // everything backfilled, the log is left as it is; the next writer restarts it
		observe(c, cs, p, "directed wal restart-rollback: checkpointed")
		// the writer that restarts the log rolls back (its frames carry no commit mark)
		p.walTx(txShape{newN: n, pages: map[int]bool{1: true, 3: true, 4: true}, commit: true}, true, false, false)
		observe(c, cs, p, "directed wal restart-rollback: rolled back")
		check := func(what string) {
			ex := do("export")
			if !strings.Contains(ex, "img="+p.refImageDigest()) {
				c.Fail(fmt.Sprintf("directed wal restart-rollback (%s): export %q differs from what SQLite sees %q", what, ex, p.refImageDigest()))
			}
			do("snapshot")
		}
		check("after the rolled-back restart")
		p.walTx(txShape{newN: n, pages: map[int]bool{1: true, 2: true}, commit: true}, false, false, false)
		observe(c, cs, p, "directed wal restart-rollback: committed in the restarted log")
		check("after the next commit")
		c.Count("directed.wal-restart-rollback")
		c.Nontrivial(fmt.Sprintf("directed-wal-restart-rollback-%d", ps))
		cs.End()
	}
}

// directedModeRoundTrip: journal_mode=wal and back to journal_mode=delete / truncate / persist: the
// switch back rewrites page 1 through a rollback journal while LiteFS still has the database
// recorded as a WAL database; it is a transaction like any other (the position advances by one,
// the file holds the new page 1), and so are the journal transactions that follow.
func directedModeRoundTrip(c *Ctx) {
	r := c.Rng
	for _, jm := range []string{"DELETE", "TRUNCATE", "PERSIST"} {
		cs := c.Begin()
		do := func(op string) string { c.Count("op." + strings.SplitN(op, " ", 2)[0]); return cs.Do(op) }
		p := newPager(r, pick(r, []int{512, 4096}), do)
		p.journalMode = jm
		do("open primary")
		do("createdb")
		p.journalTx(p.randomShape(4), 0, 0)
		observe(c, cs, p, "directed mode round trip: created")
		p.wal = true
		p.journalTx(txShape{newN: len(p.img), pages: map[int]bool{1: true}, commit: true}, 0, 0)
		observe(c, cs, p, "directed mode round trip: to wal")
		p.walTx(p.randomShape(3), false, false, false)
		observe(c, cs, p, "directed mode round trip: wal transaction")
		if !p.toRollback() {
			c.Fail("directed mode round trip: the switch back to a rollback journal was refused")
		}
		observe(c, cs, p, "directed mode round trip: back to "+jm)
		p.journalTx(p.randomShape(3), 0, 0)
		observe(c, cs, p, "directed mode round trip: journal transaction after the switch")
		p.journalTx(p.randomShape(3), 0, 0)
		observe(c, cs, p, "directed mode round trip: second journal transaction")
		c.Count("directed.mode-round-trip")
		c.Nontrivial("directed-mode-round-trip-" + jm)
		cs.End()
	}
}
