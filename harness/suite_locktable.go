package main

import (
	"fmt"
	"strings"
)

func init() {
	register(&Suite{Name: "locktable", Gen: genLockTable, New: func(c *Ctx) Runner { return &engineRunner{engineImpl{c: c}} }})
}

var rollbackLocks = []string{"PENDING", "RESERVED", "SHARED"}
var walLocks = []string{"WRITE", "CKPT", "RECOVER", "READ0", "READ1", "READ2", "READ3", "READ4", "DMS"}

// genLockTable: two or three lock owners following SQLite's rollback-mode and WAL-mode protocols
// (plus arbitrary single lock requests), interleaved in every order the generator picks with
// LiteFS's internal write-lock attempts (hold / release, checkpoint brackets).
func genLockTable(c *Ctx) error {
	c.Stats.Rule = "real DB in rollback or WAL mode; 2-3 owners stepping through SQLite's lock protocols (SHARED/RESERVED/PENDING/EXCLUSIVE; DMS/READn/WRITE/CKPT/RECOVER) plus random single requests and queries, interleaved with internal write-lock hold/release and checkpoint brackets; every reader slot READ0..READ4 is visited systematically. Non-trivial = case in which the internal lock was both refused and granted; distinct = distinct op list."
	r := c.Rng
	nSeq := 60
	if c.Tier == "thorough" {
		nSeq = 1500
	}
	// systematic part: each single client lock (shared and exclusive) vs. the internal bracket, both modes
	type sysCase struct {
		wal    bool
		lock   string
		excl   bool
		wasWAL bool // the database was in WAL mode and was switched back to a rollback journal
	}
	var sys []sysCase
	for _, wal := range []bool{false, true} {
		for _, l := range append(append([]string{}, rollbackLocks...), walLocks...) {
			sys = append(sys, sysCase{wal, l, false, false}, sysCase{wal, l, true, false})
		}
	}
	for _, l := range rollbackLocks {
		sys = append(sys, sysCase{false, l, false, true}, sysCase{false, l, true, true})
	}
	setupMode := func(cs *Case, wal bool, wasWAL bool) *pager {
		do := func(op string) string { c.Count("op." + strings.SplitN(op, " ", 2)[0]); return cs.Do(op) }
		p := newPager(r, 512, do)
		do("open primary")
		do("createdb")
		p.journalTx(p.randomShape(3), 0, 0)
		if wal || wasWAL {
			p.wal = true
			p.journalTx(txShape{newN: len(p.img), pages: map[int]bool{1: true}, commit: true}, 0, 0)
			p.walTx(p.randomShape(2), false, false, false)
			if wasWAL {
				p.toRollback() // journal_mode=DELETE again: from here on the rollback-mode lock set applies
				p.journalTx(p.randomShape(2), 0, 0)
			} else {
				do("unlock 1 DMS")
			}
		}
		if !wal {
			do("wc") // an (empty) log file exists whenever an application touches the WAL lock bytes
		}
		do("state")
		return p
	}
	for _, sc := range sys {
		cs := c.Begin()
		do := func(op string) string { return cs.Do(op) }
		setupMode(cs, sc.wal, sc.wasWAL)
		verb := "rlock"
		if sc.excl {
			verb = "lock"
		}
		got := do(fmt.Sprintf("%s 5 %s", verb, sc.lock))
		do("locks")
		w := do("whold")
		do("locks")
		if w == "true" {
			do(fmt.Sprintf("canlock 6 %s", sc.lock))
			do(fmt.Sprintf("rlock 6 %s", sc.lock))
			do("wrelease")
		}
		do(fmt.Sprintf("unlock 5 %s", sc.lock))
		w2 := do("whold")
		do("locks")
		if w2 == "true" {
			do(fmt.Sprintf("%s 5 %s", verb, sc.lock))
			do("wrelease")
		}
		do("locks")
		cs.End()
		c.Count("sys." + got + "." + w)
		if w != w2 {
			c.Nontrivial(fmt.Sprintf("sys|%v|%s|%v|%v", sc.wal, sc.lock, sc.excl, sc.wasWAL))
		}
	}
	// systematic part 2: one owner (two connections of one process) holds two locks of the same file
	// shared and gives one of them back: the other must still be held (each request names exactly
	// the lock type of its byte, whatever else the owner holds)
	type pairCase struct {
		wal  bool
		a, b string
	}
	var pairs []pairCase
	for _, a := range walLocks {
		for _, b := range walLocks {
			if a != b {
				pairs = append(pairs, pairCase{true, a, b})
			}
		}
	}
	for _, wal := range []bool{false, true} {
		for _, a := range rollbackLocks {
			for _, b := range rollbackLocks {
				if a != b {
					pairs = append(pairs, pairCase{wal, a, b})
				}
			}
		}
	}
	for _, pc := range pairs {
		cs := c.Begin()
		do := func(op string) string { c.Count("op." + strings.SplitN(op, " ", 2)[0]); return cs.Do(op) }
		setupMode(cs, pc.wal, false)
		do(fmt.Sprintf("rlock 5 %s", pc.a))
		do(fmt.Sprintf("rlock 5 %s", pc.b))
		do("locks")
		do(fmt.Sprintf("unlock 5 %s", pc.a))
		do("locks")
		do(fmt.Sprintf("canlock 6 %s", pc.b))
		w := do("whold")
		do("locks")
		if w == "true" {
			do("wrelease")
		}
		do(fmt.Sprintf("unlock 5 %s", pc.b))
		do("locks")
		w2 := do("whold")
		if w2 == "true" {
			do("wrelease")
		}
		cs.End()
		c.Count("pair." + w + "." + w2)
		if w != w2 {
			c.Nontrivial(fmt.Sprintf("pair|%v|%s|%s", pc.wal, pc.a, pc.b))
		}
	}
	// random part
	for s := 0; s < nSeq; s++ {
		wal := r.Bool()
		wasWAL := !wal && r.Chance(1, 3)
		cs := c.Begin()
		do := func(op string) string { c.Count("op." + strings.SplitN(op, " ", 2)[0]); return cs.Do(op) }
		setupMode(cs, wal, wasWAL)
		var sig strings.Builder
		fmt.Fprintf(&sig, "%v/%v", wal, wasWAL)
		granted, refused, held := false, false, false
		steps := r.Range(10, 40)
		for i := 0; i < steps; i++ {
			o := r.Range(2, 4)
			pool := rollbackLocks
			if wal && r.Chance(3, 4) {
				pool = walLocks
			}
			var op string
			switch k := r.Intn(14); {
			case k < 3:
				op = fmt.Sprintf("rlock %d %s", o, pick(r, pool))
			case k < 6:
				op = fmt.Sprintf("lock %d %s", o, pick(r, pool))
			case k < 9:
				op = fmt.Sprintf("unlock %d %s", o, pick(r, pool))
			case k == 9:
				op = fmt.Sprintf("canlock %d %s", o, pick(r, pool))
			case k == 10:
				op = fmt.Sprintf("canrlock %d %s", o, pick(r, pool))
			case k == 11:
				if held {
					op = "wrelease"
					held = false
				} else {
					op = "whold"
				}
			case k == 12:
				op = fmt.Sprintf("unlock %d %s", o, strings.Join(pool, ","))
			default:
				if !held {
					op = "ckpt"
				} else {
					op = "locks"
				}
			}
			if strings.HasPrefix(op, "unlock") && strings.Contains(op, "WRITE") && !wal {
				continue // releasing WRITE without a WAL file would be a protocol violation of the application
			}
			res := do(op)
			if op == "whold" {
				if res == "true" {
					held, granted = true, true
				} else {
					refused = true
				}
			}
			if op == "ckpt" {
				if res == "ok" {
					granted = true
				} else if res == "busy" {
					refused = true
				}
			}
			fmt.Fprintf(&sig, ",%s", op)
			if i%4 == 3 {
				do("locks")
			}
		}
		do("locks")
		cs.End()
		if granted && refused {
			c.Nontrivial(sig.String())
		}
	}
	return nil
}
