package main

import (
	"encoding/hex"
	"fmt"
	"strings"
)

func init() {
	register(&Suite{Name: "import", Gen: genImport, New: func(c *Ctx) Runner { return &engineRunner{engineImpl{c: c}} }})
}

// genImport: images (valid of all page sizes / counts / header kinds, truncated, garbage) imported
// into an absent, empty, dropped or populated database (rollback or WAL mode, with pending WAL
// frames or a journal left behind); after each import: state, log, raw image, export; after a
// failed import: nothing changed and a restart succeeds.
func genImport(c *Ctx) error {
	c.Stats.Rule = "target state {absent, empty, dropped, populated (journal mode), populated (WAL with un-checkpointed frames), WAL mode without a WAL file (itself created by importing a WAL-header image), populated with a hot journal left by a writer that died (after a successful import: a transaction applied as a file, then a restart)} x image {valid same page size, valid other page size, WAL-header image, page counts 1/2/5/255..257, truncated (missing pages / cut mid-page), zero-length, short garbage, bad magic, random bytes}; each followed by export and, after a refused import, a restart. Non-trivial = a successful import followed by an export, or a refused import into a populated database; distinct = distinct (target, image kind, page size, count)."
	r := c.Rng
	targets := []string{"absent", "empty", "dropped", "journal", "wal", "wal-nofile", "hot-journal"}
	kinds := []string{"valid", "valid", "valid-wal", "other-ps", "trunc-pages", "trunc-mid", "empty", "short", "badmagic", "random"}
	reps := 1
	if c.Tier == "thorough" {
		reps = 12
	}
	for rep := 0; rep < reps; rep++ {
		for _, tgt := range targets {
			for _, kind := range kinds {
				if tgt == "hot-journal" && kind != "valid" && kind != "valid-wal" {
					continue // with a hot journal the file holds uncommitted pages until somebody rolls it back: only imports that replace everything are observed
				}
				ps := pick(r, []int{512, 1024, 4096, 8192})
				cs := c.Begin()
				do := func(op string) string { c.Count("op." + strings.SplitN(op, " ", 2)[0]); return cs.Do(op) }
				p := newPager(r, ps, do)
				p.walBig = r.Bool()
				do("open primary")
				switch tgt {
				case "empty":
					do("createdb")
				case "dropped", "journal", "wal", "hot-journal":
					do("createdb")
					if tgt == "hot-journal" {
						all := txShape{newN: 5, pages: map[int]bool{}, commit: true}
						for pg := 1; pg <= 5; pg++ {
							all.pages[pg] = true
						}
						p.journalTx(all, 0, 0)
						p.journalTx(txShape{newN: 5, pages: map[int]bool{1: true, 4: true}, commit: true}, 0, 0)
					} else {
						p.journalTx(p.randomShape(5), 0, 0)
						p.journalTx(p.randomShape(3), 0, 0)
					}
					if tgt == "dropped" {
						do("drop")
						p.dropped()
					}
					if tgt == "hot-journal" {
						// a writer dies inside a transaction: journal synced, pages written, nothing finalised;
						// its locks go away with the process
						hot := *p
						hot.journalMode = "PERSIST"
						hot.do = func(op string) string {
							if op == "jrm" || op == "jtr" || op == "jw 0 z28" || strings.HasPrefix(op, "dbt ") || strings.HasPrefix(op, "unlock") ||
								(strings.HasPrefix(op, "rlock") && strings.HasSuffix(op, " SHARED") && strings.Contains(op, " 1 ") && false) {
								return "skipped"
							}
							return do(op)
						}
						hot.journalTx(txShape{newN: len(p.img), pages: map[int]bool{1: true, 2: true, 3: true}, commit: true}, 0, 0)
						do("unlock 1 PENDING,RESERVED")
						do("unlock 1 SHARED")
						p.journalFile = true
					}
					if tgt == "wal" {
						p.wal = true
						p.journalTx(txShape{newN: len(p.img), pages: map[int]bool{1: true}, commit: true}, 0, 0)
						p.walTx(p.randomShape(3), false, false, false)
						p.walTx(p.randomShape(3), false, true, false)
					}
				}
				if tgt == "wal-nofile" {
					// the database exists in WAL mode (its header says so) but no WAL file does:
					// it was itself created by importing a WAL-header image
					v0 := newVPrimary(r, ps)
					v0.p.wal = true
					v0.commit(r.Range(1, 5), map[int]bool{})
					b := append([]byte{}, v0.img[0]...)
					b[18], b[19] = 2, 2
					v0.img[0], v0.tok[0] = b, hex.EncodeToString(b)
					if res := do("import " + strings.Join(v0.tok, "+")); res != "ok" {
						c.Fail("import(valid-wal into absent) refused: " + res)
					}
					adopt(p, v0, ps)
				}
				if tgt == "hot-journal" {
					cs.Do("state")
					cs.Do("ltx")
				} else {
					observeQuiet(cs, p)
				}
				// build the image to import
				ips := ps
				if kind == "other-ps" {
					for ips == ps {
						ips = pick(r, []int{512, 1024, 4096, 8192})
					}
				}
				n := pick(r, []int{1, 2, 5, 5, 255, 256, 257})
				if tgt == "hot-journal" {
					n = 5 // the pages the dead writer journalled exist in the imported image too
				}
				if ips >= 4096 && n > 5 {
					n = 5
				}
				v := newVPrimary(r, ips)
				v.p.wal = kind == "valid-wal"
				v.commit(n, map[int]bool{})
				if kind == "valid-wal" { // header version bytes 2,2
					b := append([]byte{}, v.img[0]...)
					b[18], b[19] = 2, 2
					v.img[0], v.tok[0] = b, hex.EncodeToString(b)
				}
				tok := strings.Join(v.tok, "+")
				valid := kind == "valid" || kind == "valid-wal" || kind == "other-ps"
				switch kind {
				case "trunc-pages":
					if n > 1 {
						tok = strings.Join(v.tok[:n-1], "+")
					} else {
						tok = hex.EncodeToString(v.img[0][:ips/2])
					}
				case "trunc-mid":
					tok = strings.Join(v.tok[:n-1], "+")
					if tok != "" {
						tok += "+"
					}
					tok += hex.EncodeToString(v.img[n-1][:ips/2])
				case "empty":
					tok = "-"
				case "short":
					tok = hex.EncodeToString(r.Bytes(r.Range(1, 99)))
				case "badmagic":
					b := append([]byte{}, v.img[0]...)
					b[3] ^= 0xff
					tok = hex.EncodeToString(b)
				case "random":
					tok = hex.EncodeToString(r.Bytes(pick(r, []int{100, 512, 4096})))
				}
				res := do("import " + tok)
				ok := strings.HasPrefix(res, "ok") && !strings.Contains(res, "exit=")
				c.Count("import." + kind + "." + firstWords(res, 1))
				if ok {
					adopt(p, v, ips)
				}
				if !ok && valid && ips == ps {
					c.Fail(fmt.Sprintf("import(%s into %s): a valid image of the database's own page size was refused: %s", kind, tgt, res))
				}
				_ = valid
				cs.Do(p.refLine())
				st := do("state")
				do("ltx")
				do("raw")
				ex := do("export")
				if strings.Contains(st, "exit=") {
					c.Fail(fmt.Sprintf("import(%s into %s): the node stopped: %s", kind, tgt, st))
				} else if len(p.img) > 0 && !strings.Contains(ex, "img="+p.refImageDigest()) {
					c.Fail(fmt.Sprintf("import(%s into %s) = %s: export %q is not the image %q", kind, tgt, res, ex, p.refImageDigest()))
				}
				if ok && tgt == "hot-journal" && len(v.img) > 0 {
					// a transaction that reaches the node as a file (forwarded / replicated), then a restart:
					// nothing of the dead writer's journal may come back
					var t, ck uint64
					fmt.Sscanf(posOf(st), "%d:%x", &t, &ck)
					w := v.clone()
					w.img, w.tok = append([][]byte{}, p.img...), append([]string{}, p.tok...)
					w.txid, w.chk = t, ck
					spec := w.commit(len(w.img), map[int]bool{}) // page 1 only: none of the pages the dead writer journalled besides it
					if out := do("txapply " + spec); out != "ok" {
						c.Fail(fmt.Sprintf("import(%s into %s): a transaction file on top of the import was not applied: %s", kind, tgt, out))
					}
					p.img, p.tok = append([][]byte{}, w.img...), append([]string{}, w.tok...)
					cs.Do(p.refLine())
					do("state")
					do("raw")
					if out := do("reopen"); out != "ok" {
						c.Fail(fmt.Sprintf("import(%s into %s): restart fails after an import over a hot journal and one more transaction: %s", kind, tgt, out))
					}
					p.restarted()
					cs.Do(p.refLine())
					do("state")
					do("raw")
					do("ltx")
				}
				if !ok {
					if out := do("reopen"); out != "ok" {
						c.Fail(fmt.Sprintf("import(%s into %s): restart fails after a refused import: %s", kind, tgt, out))
					}
					p.restarted()
					cs.Do(p.refLine())
					do("state")
					do("raw")
				} else if r.Bool() {
					// keep using the database: one more local transaction on top of the import
					if len(p.img) > 0 {
						if p.wal {
							p.walTx(p.randomShape(3), false, false, false)
						} else {
							p.journalTx(p.randomShape(3), 0, 0)
						}
						cs.Do(p.refLine())
						do("state")
						do("ltx")
						do("raw")
					}
				}
				cs.End()
				if ok || tgt == "journal" || tgt == "wal" || tgt == "wal-nofile" || tgt == "hot-journal" {
					c.Nontrivial(fmt.Sprintf("%s|%s|%d|%d|%d", tgt, kind, ps, ips, n))
				}
			}
		}
	}
	return nil
}

// adopt: the image SQLite sees after a successful import: the imported bytes with the change
// counter and schema cookie reset.
func adopt(p *pager, v *vprimary, ips int) {
	img := make([][]byte, len(v.img))
	toks := make([]string, len(v.img))
	for i := range v.img {
		img[i], toks[i] = v.img[i], v.tok[i]
	}
	b := append([]byte{}, img[0]...)
	for _, o := range []int{24, 25, 26, 27, 40, 41, 42, 43} {
		b[o] = 0
	}
	img[0], toks[0] = b, hex.EncodeToString(b)
	p.ps, p.img, p.tok = ips, img, toks
	p.wal = b[18] == 2 && b[19] == 2
	p.walInit, p.walPages, p.walOff, p.journalFile = false, map[uint32][]byte{}, 0, false
}

func observeQuiet(cs *Case, p *pager) {
	cs.Do(p.refLine())
	cs.Do("state")
	cs.Do("ltx")
	cs.Do("raw")
}
