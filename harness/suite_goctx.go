package main

import (
	"context"
	"errors"
	"fmt"
	"strconv"
	"strings"
	"time"

	"github.com/superfly/litefs"
)

// goctx suite: trees of real contexts — context.WithCancelCause, LiteFS's primary-scoped context
// (store.go newPrimaryCtx, through the verif hook) and a copy of that type as it was before fix
// 55d1f52 — are canceled / lose their lease in every order; after each step Err and
// context.Cause of every context, and what a blocked RWMutexGuard.Lock returns, are compared
// with Model/GoCtx.lean.  The copy of the old type is there to validate the *model* of
// context.Cause on a custom context type (the case in which it returns nil for a done context).

func init() {
	register(&Suite{Name: "goctx", Gen: genGoCtx, New: func(*Ctx) Runner { return &goctxImpl{} }})
}

// oldPrimaryCtx is store.go's primaryCtx before 55d1f52, verbatim.
type oldPrimaryCtx struct {
	parent    context.Context
	primaryCh chan struct{}
	done      chan struct{}
}

func newOldPrimaryCtx(parent context.Context, primaryCh chan struct{}) *oldPrimaryCtx {
	ctx := &oldPrimaryCtx{parent: parent, primaryCh: primaryCh, done: make(chan struct{})}
	go func() {
		select {
		case <-ctx.primaryCh:
			close(ctx.done)
		case <-ctx.parent.Done():
			close(ctx.done)
		}
	}()
	return ctx
}

func (ctx *oldPrimaryCtx) Deadline() (deadline time.Time, ok bool) { return ctx.parent.Deadline() }
func (ctx *oldPrimaryCtx) Done() <-chan struct{}                   { return ctx.done }
func (ctx *oldPrimaryCtx) Err() error {
	select {
	case <-ctx.primaryCh:
		return litefs.ErrLeaseExpired
	default:
		return ctx.parent.Err()
	}
}
func (ctx *oldPrimaryCtx) Value(key any) any { return ctx.parent.Value(key) }

type goctxNode struct {
	ctx    context.Context
	cancel context.CancelCauseFunc // standard cancelable contexts
	ch     chan struct{}           // primary contexts
	closed bool
}

type goctxImpl struct {
	nodes []*goctxNode
	users map[int]error
}

func (m *goctxImpl) Close() {
	for _, n := range m.nodes {
		if n.cancel != nil {
			n.cancel(nil)
		}
		if n.ch != nil && !n.closed {
			close(n.ch)
			n.closed = true
		}
	}
	m.nodes = nil
}

func (m *goctxImpl) errName(err error) string {
	switch {
	case err == nil:
		return "nil"
	case err == context.Canceled:
		return "canceled"
	case err == litefs.ErrLeaseExpired:
		return "lease-expired"
	}
	for k, e := range m.users {
		if e == err {
			return fmt.Sprintf("user%d", k)
		}
	}
	return "other:" + err.Error()
}

func (m *goctxImpl) snapshot() string {
	var b strings.Builder
	for _, n := range m.nodes {
		fmt.Fprintf(&b, "%s/%s;", m.errName(n.ctx.Err()), m.errName(context.Cause(n.ctx)))
	}
	return b.String()
}

// settle waits until the propagation goroutines have run: the (Err, Cause) of every context
// is unchanged over a few consecutive reads.
func (m *goctxImpl) settle() {
	prev, same := m.snapshot(), 0
	for i := 0; i < 400 && same < 4; i++ {
		time.Sleep(500 * time.Microsecond)
		cur := m.snapshot()
		if cur == prev {
			same++
		} else {
			prev, same = cur, 0
		}
	}
}

func (m *goctxImpl) parent(s string) (context.Context, bool) {
	if s == "-" {
		return context.Background(), true
	}
	k, err := strconv.Atoi(s)
	if err != nil || k < 0 || k >= len(m.nodes) {
		return nil, false
	}
	return m.nodes[k].ctx, true
}

func (m *goctxImpl) node(s string) *goctxNode {
	k, err := strconv.Atoi(s)
	if err != nil || k < 0 || k >= len(m.nodes) {
		return nil
	}
	return m.nodes[k]
}

func (m *goctxImpl) Do(line string) (obs string) {
	defer func() {
		if r := recover(); r != nil {
			obs = "panic " + fmt.Sprint(r)
		}
	}()
	f := strings.Fields(line)
	switch {
	case len(f) == 2 && f[0] == "case":
		m.Close()
		m.users = map[int]error{}
		return "case " + f[1]
	case len(f) == 2 && (f[0] == "mkcancel" || f[0] == "mkprimary" || f[0] == "mkold"):
		p, ok := m.parent(f[1])
		if !ok {
			return "bad-op"
		}
		n := &goctxNode{}
		switch f[0] {
		case "mkcancel":
			n.ctx, n.cancel = context.WithCancelCause(p)
		case "mkprimary":
			n.ch = make(chan struct{})
			n.ctx = litefs.VerifNewPrimaryCtx(p, n.ch)
		default:
			n.ch = make(chan struct{})
			n.ctx = newOldPrimaryCtx(p, n.ch)
		}
		m.nodes = append(m.nodes, n)
		m.settle()
		return fmt.Sprintf("ok %d", len(m.nodes)-1)
	case len(f) == 3 && f[0] == "cancel":
		n := m.node(f[1])
		if n == nil || n.cancel == nil {
			return "bad-op"
		}
		var cause error
		if f[2] != "-" {
			k, err := strconv.Atoi(f[2])
			if err != nil || k < 0 {
				return "bad-op"
			}
			if m.users == nil {
				m.users = map[int]error{}
			}
			if m.users[k] == nil {
				m.users[k] = errors.New("user error " + f[2])
			}
			cause = m.users[k]
		}
		n.cancel(cause)
		m.settle()
		return "ok"
	case len(f) == 2 && f[0] == "close":
		n := m.node(f[1])
		if n == nil || n.ch == nil {
			return "bad-op"
		}
		if !n.closed {
			close(n.ch)
			n.closed = true
		}
		m.settle()
		return "ok"
	case len(f) == 2 && f[0] == "obs":
		n := m.node(f[1])
		if n == nil {
			return "bad-op"
		}
		return "err=" + m.errName(n.ctx.Err()) + " cause=" + m.errName(context.Cause(n.ctx))
	case len(f) == 2 && f[0] == "lockwait":
		// another owner holds the lock exclusively; this owner waits for it under the context
		n := m.node(f[1])
		if n == nil {
			return "bad-op"
		}
		var mu litefs.RWMutex
		a, b := mu.Guard(), mu.Guard()
		if !a.TryLock() {
			return "err"
		}
		defer a.Unlock()
		res := make(chan error, 1)
		stop, cancel := context.WithCancel(context.Background())
		defer cancel()
		go func() {
			// the wait ends when n.ctx is done; `stop` only bounds the observation
			ctx := n.ctx
			done := make(chan error, 1)
			go func() { done <- b.Lock(ctx) }()
			select {
			case err := <-done:
				res <- err
			case <-stop.Done():
			}
		}()
		select {
		case err := <-res:
			if err == nil {
				if b.State() == litefs.RWMutexStateExclusive {
					return "acquired"
				}
				return "nil" // a nil error without the lock
			}
			return m.errName(err)
		case <-time.After(40 * time.Millisecond):
			return "blocked"
		}
	}
	return "bad-op"
}

func genGoCtx(c *Ctx) error {
	c.Stats.Rule = "trees of up to 9 contexts {context.WithCancelCause, LiteFS primary-scoped context (fixed, via hook), pre-fix primary-scoped context (copy)} over Background or any earlier context; steps: cancel a standard context with / without a cause, close a primary channel (lease lost), make a new context under an already-done parent; after every step Err and context.Cause of every context, at the end what RWMutexGuard.Lock under each context returns while another owner holds the lock. Non-trivial = at least one primary context is done at the end; distinct = distinct op list."
	r := c.Rng
	n := 60
	if c.Tier == "thorough" {
		n = 1500
	}
	// directed: the shape of an HTTP request on the primary (request context live, lease lost)
	for _, mk := range []string{"mkprimary", "mkold"} {
		cs := c.Begin()
		cs.Do("mkcancel -")
		cs.Do(mk + " 0")
		cs.Do("obs 1")
		cs.Do("lockwait 1")
		cs.Do("close 1")
		cs.Do("obs 0")
		cs.Do("obs 1")
		out := cs.Do("lockwait 1")
		if mk == "mkprimary" && (out == "nil" || out == "acquired" || out == "blocked") {
			c.Fail("a lock wait under a primary-scoped context whose lease is lost (request context still live) returned " + out + ": no error although the lock was not acquired")
		}
		cs.Do("cancel 0 3")
		cs.Do("obs 1")
		cs.End()
		c.Nontrivial("directed-" + mk)
	}
	for h := 0; h < n; h++ {
		cs := c.Begin()
		var sig strings.Builder
		type nd struct{ kind string }
		var nodes []nd
		steps := r.Range(4, 14)
		primDone := false
		closed := map[int]bool{}
		for i := 0; i < steps; i++ {
			var op string
			switch k := r.Intn(10); {
			case k < 4 && len(nodes) < 9, len(nodes) == 0:
				kind := pick(r, []string{"mkcancel", "mkcancel", "mkprimary", "mkprimary", "mkold"})
				par := "-"
				if len(nodes) > 0 && r.Chance(3, 4) {
					par = strconv.Itoa(r.Intn(len(nodes)))
				}
				op = kind + " " + par
				nodes = append(nodes, nd{kind})
			case k < 7:
				j := r.Intn(len(nodes))
				if nodes[j].kind == "mkcancel" {
					cause := "-"
					if r.Bool() {
						cause = strconv.Itoa(r.Intn(4))
					}
					op = fmt.Sprintf("cancel %d %s", j, cause)
				} else {
					op = fmt.Sprintf("close %d", j)
					closed[j] = true
				}
			default:
				op = fmt.Sprintf("obs %d", r.Intn(len(nodes)))
			}
			c.Count("op." + strings.Fields(op)[0])
			cs.Do(op)
			sig.WriteString(op + ";")
			for j := range nodes {
				cs.Do(fmt.Sprintf("obs %d", j))
			}
		}
		for j := range nodes {
			out := cs.Do(fmt.Sprintf("lockwait %d", j))
			c.Count("lockwait." + nodes[j].kind + "." + out)
			if nodes[j].kind != "mkcancel" && closed[j] {
				primDone = true
			}
			if nodes[j].kind != "mkold" && (out == "nil" || out == "acquired") {
				c.Fail(fmt.Sprintf("history %d: a lock wait under context %d (%s) returned %s although another owner holds the lock", h, j, nodes[j].kind, out))
			}
		}
		cs.End()
		if primDone {
			c.Nontrivial(sig.String())
		}
	}
	return nil
}
