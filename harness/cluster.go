package main

import (
	"github.com/superfly/litefs/consul"
	"bytes"
	"context"
	"encoding/hex"
	"errors"
	"fmt"
	"io"
	"net/http"
	"os"
	"path/filepath"
	"sort"
	"strconv"
	"strings"
	"sync"
	"syscall"
	"sync/atomic"
	"time"

	"bazil.org/fuse"
	"github.com/superfly/litefs"
	lfuse "github.com/superfly/litefs/fuse"
	lhttp "github.com/superfly/litefs/http"
	"github.com/superfly/ltx"
)

// ---------------------------------------------------------------------------------------------
// A scripted lease service shared by the nodes of one cluster: one lease, a holder, a cluster
// ID.  The harness decides who may acquire the free lease (`allow`), can expire the lease and
// can make renewals fail.
// ---------------------------------------------------------------------------------------------

type leaseSvc struct {
	mu        sync.Mutex
	holder    int // node index, -1 = free
	leaseID   int
	info      litefs.PrimaryInfo
	allow     int // node allowed to acquire the free lease, -1 = nobody
	clusterID string
	renewErr  bool     // renewals fail with a transient error
	failNext  int      // the next n renewals fail (then succeed again)
	ttlLong   bool     // leases granted from now on have a TTL of an hour (no periodic renewal within a case)
	ttlMid    bool     // leases granted from now on have a TTL of 2.5 s (longer than the renewal time-out + retry interval)
	cidArmed  bool     // fault: once the next Acquire has succeeded, cluster-id lookups fail
	cidErr    bool     // ... the fault is active
	log       []string // acquire / release events (for C08 oracles)
}

func newLeaseSvc() *leaseSvc { return &leaseSvc{holder: -1, allow: -1} }

func (s *leaseSvc) event(f string, a ...interface{}) { s.log = append(s.log, fmt.Sprintf(f, a...)) }

type nodeLeaser struct {
	inner *consul.Leaser // consul mode: the real Consul leaser against the fake Consul server (same scripted state)
	svc   *leaseSvc
	idx   int
	host  string
	url   string
	ticks atomic.Int64 // iterations of the node's lease-monitor loop (it asks for the cluster ID at the top of each)
	dead  atomic.Bool  // the process this leaser belonged to has died (`crash`): it reaches the lease service no more
}

func (l *nodeLeaser) Close() error         { return nil }
func (l *nodeLeaser) Type() string         { return "sim" }
func (l *nodeLeaser) Hostname() string     { return l.host }
func (l *nodeLeaser) AdvertiseURL() string { return l.url }

func (l *nodeLeaser) Acquire(ctx context.Context) (litefs.Lease, error) {
	if l.dead.Load() {
		return nil, errNetDown
	}
	if l.inner != nil {
		return l.inner.Acquire(ctx)
	}
	s := l.svc
	s.mu.Lock()
	defer s.mu.Unlock()
	if s.holder != -1 || s.allow != l.idx {
		return nil, litefs.ErrPrimaryExists
	}
	s.holder = l.idx
	s.leaseID++
	s.info = litefs.PrimaryInfo{Hostname: l.host, AdvertiseURL: l.url}
	s.event("acquire %d", l.idx)
	if s.cidArmed {
		s.cidArmed, s.cidErr = false, true
	}
	return &simLease{svc: s, idx: l.idx, id: s.leaseID, renewedAt: time.Now(), handoffCh: make(chan uint64, 1), long: s.ttlLong, mid: s.ttlMid}, nil
}

func (l *nodeLeaser) AcquireExisting(ctx context.Context, leaseID string) (litefs.Lease, error) {
	if l.inner != nil {
		return l.inner.AcquireExisting(ctx, leaseID)
	}
	s := l.svc
	s.mu.Lock()
	defer s.mu.Unlock()
	id, _ := strconv.Atoi(leaseID)
	if s.holder == -1 || id != s.leaseID {
		return nil, litefs.ErrLeaseExpired
	}
	s.holder = l.idx
	s.info = litefs.PrimaryInfo{Hostname: l.host, AdvertiseURL: l.url}
	s.event("acquire-existing %d", l.idx)
	return &simLease{svc: s, idx: l.idx, id: id, renewedAt: time.Now(), handoffCh: make(chan uint64, 1), long: s.ttlLong}, nil
}

func (l *nodeLeaser) PrimaryInfo(ctx context.Context) (litefs.PrimaryInfo, error) {
	if l.dead.Load() {
		return litefs.PrimaryInfo{}, errNetDown
	}
	if l.inner != nil {
		return l.inner.PrimaryInfo(ctx)
	}
	s := l.svc
	s.mu.Lock()
	defer s.mu.Unlock()
	if s.holder == -1 {
		return litefs.PrimaryInfo{}, litefs.ErrNoPrimary
	}
	return s.info, nil
}

func (l *nodeLeaser) ClusterID(ctx context.Context) (string, error) {
	l.ticks.Add(1)
	if l.inner != nil {
		return l.inner.ClusterID(ctx)
	}
	l.svc.mu.Lock()
	defer l.svc.mu.Unlock()
	if l.svc.cidErr {
		return "", errors.New("lease service: cluster id unavailable")
	}
	return l.svc.clusterID, nil
}

func (l *nodeLeaser) SetClusterID(ctx context.Context, id string) error {
	if l.inner != nil {
		return l.inner.SetClusterID(ctx, id)
	}
	l.svc.mu.Lock()
	defer l.svc.mu.Unlock()
	l.svc.clusterID = id
	return nil
}

type simLease struct {
	mid       bool
	svc       *leaseSvc
	idx       int
	id        int
	mu        sync.Mutex
	renewedAt time.Time
	handoffCh chan uint64
	long      bool
}

func (l *simLease) ID() string { return strconv.Itoa(l.id) }
func (l *simLease) RenewedAt() time.Time {
	l.mu.Lock()
	defer l.mu.Unlock()
	return l.renewedAt
}
func (l *simLease) TTL() time.Duration {
	if l.long {
		return time.Hour
	}
	if l.mid {
		return 2500 * time.Millisecond
	}
	return 200 * time.Millisecond
}
func (l *simLease) Renew(ctx context.Context) error {
	s := l.svc
	s.mu.Lock()
	defer s.mu.Unlock()
	if s.holder != l.idx || s.leaseID != l.id {
		return litefs.ErrLeaseExpired
	}
	if s.renewErr {
		return errors.New("lease service unreachable")
	}
	if s.failNext > 0 {
		s.failNext--
		return errors.New("lease service unreachable (once)")
	}
	l.mu.Lock()
	l.renewedAt = time.Now()
	l.mu.Unlock()
	return nil
}
func (l *simLease) Handoff(ctx context.Context, nodeID uint64) error {
	select {
	case l.handoffCh <- nodeID:
		return nil
	default:
		return errors.New("handoff pending")
	}
}
func (l *simLease) HandoffCh() <-chan uint64 { return l.handoffCh }
func (l *simLease) Close() error {
	s := l.svc
	s.mu.Lock()
	defer s.mu.Unlock()
	if s.holder == l.idx && s.leaseID == l.id {
		s.holder = -1
		s.event("release %d", l.idx)
	}
	return nil
}

// ---------------------------------------------------------------------------------------------
// netClient wraps the real HTTP client of a node; the harness can cut the node off (existing
// streams are closed, new requests fail).
// ---------------------------------------------------------------------------------------------

type netClient struct {
	inner   *lhttp.Client
	blocked atomic.Bool
	mu      sync.Mutex
	streams map[*netStream]struct{}
	nStream atomic.Int64 // streams opened so far
	held    atomic.Bool  // incoming stream data is kept in flight
}

type netStream struct {
	litefs.Stream
	c *netClient
}

// Read delivers nothing while the node's stream is held (`stream-hold`): frames the primary has
// sent stay in flight until `stream-release`.
func (s *netStream) Read(p []byte) (int, error) {
	for s.c.held.Load() {
		time.Sleep(time.Millisecond)
	}
	return s.Stream.Read(p)
}

func (s *netStream) Close() error {
	s.c.mu.Lock()
	delete(s.c.streams, s)
	s.c.mu.Unlock()
	return s.Stream.Close()
}

var errNetDown = errors.New("network unreachable (harness)")

func (c *netClient) AcquireHaltLock(ctx context.Context, primaryURL string, nodeID uint64, name string, lockID int64) (*litefs.HaltLock, error) {
	if c.blocked.Load() {
		return nil, errNetDown
	}
	return c.inner.AcquireHaltLock(ctx, primaryURL, nodeID, name, lockID)
}
func (c *netClient) ReleaseHaltLock(ctx context.Context, primaryURL string, nodeID uint64, name string, lockID int64) error {
	if c.blocked.Load() {
		return errNetDown
	}
	return c.inner.ReleaseHaltLock(ctx, primaryURL, nodeID, name, lockID)
}
func (c *netClient) Commit(ctx context.Context, primaryURL string, nodeID uint64, name string, lockID int64, r io.Reader) error {
	if c.blocked.Load() {
		return errNetDown
	}
	return c.inner.Commit(ctx, primaryURL, nodeID, name, lockID, r)
}
func (c *netClient) Stream(ctx context.Context, primaryURL string, nodeID uint64, posMap map[string]ltx.Pos, filter []string) (litefs.Stream, error) {
	if c.blocked.Load() {
		return nil, errNetDown
	}
	st, err := c.inner.Stream(ctx, primaryURL, nodeID, posMap, filter)
	if err != nil {
		return nil, err
	}
	ns := &netStream{Stream: st, c: c}
	c.mu.Lock()
	c.streams[ns] = struct{}{}
	c.mu.Unlock()
	c.nStream.Add(1)
	if c.blocked.Load() {
		_ = ns.Close()
		return nil, errNetDown
	}
	return ns, nil
}

// block cuts the node off (or reconnects it); reports whether a live stream was closed
func (c *netClient) block(b bool) (had bool) {
	c.blocked.Store(b)
	if b {
		c.mu.Lock()
		var ss []*netStream
		for s := range c.streams {
			ss = append(ss, s)
		}
		c.mu.Unlock()
		for _, s := range ss {
			_ = s.Stream.Close()
		}
		had = len(ss) > 0
	}
	return had
}

// ---------------------------------------------------------------------------------------------
// clusterImpl: N real stores + HTTP servers in one process.
//
//	cluster <n>          create n nodes (closed)
//	n <k> <engine op>    run an engine operation on node k
//	up <k> / down <k>    start (open on its data directory) / stop a node gracefully
//	allow <k|-1>         who may take the free lease
//	demote <k>           Store.Demote on node k
//	expire               the lease service forgets the lease
//	net <k> on|off       connectivity of node k as a replica
//	sync                 wait until every connected replica has the primary's position map
//	roles                who believes to be primary
// ---------------------------------------------------------------------------------------------

// snapGate suspends the node's next WriteSnapshotTo right after it captured its position (at
// its first shared lock on CKPT) until released: the window in which a writer may commit.
type snapGate struct {
	armed   atomic.Bool
	paused  chan struct{}
	release chan struct{}
}

type clusterNode struct {
	bgHalt chan string // answer of a halt-lock request issued in the background
	bgImp  chan string // answer of an import request (POST /import) issued in the background
	haltH  map[int64]*lfuse.LockHandle // mount mode: open handles of the -lock file that hold the HALT byte, by the suite's label
	pctx   context.Context
	gate   *snapGate
	hooked *litefs.DB
	eng    engineImpl
	srv    *lhttp.Server
	leaser *nodeLeaser
	client *netClient
	up     bool
	cand   bool
	filter []string // names of the databases this node replicates (Store.DatabaseFilter); empty = all
}

type clusterImpl struct {
	xdbs map[string]bool // names of other databases made with `xdb`
	consul *fakeConsul
	genIDs []string
	c      *Ctx
	svc    *leaseSvc
	nodes  []*clusterNode
}

const clusterSettle = 6 * time.Second

// halt locks granted in cluster histories expire after this long (`halt-expire` waits it out)
const haltTTL = 60 * time.Millisecond

func (m *clusterImpl) Close() {
	for _, n := range m.nodes {
		m.stop(n)
		n.eng.Close()
	}
	m.nodes = nil
	if m.consul != nil {
		m.consul.Close()
		m.consul = nil
	}
}

func (m *clusterImpl) stop(n *clusterNode) {
	if !n.up {
		return
	}
	n.up = false
	if n.srv != nil {
		_ = n.srv.Close()
		n.srv = nil
	}
	n.eng.closeFiles()
	if n.eng.store != nil {
		// the application's connections die with the process: their locks go away (Store.Close
		// releases outstanding remote halt locks, which needs the write lock)
		for _, db := range n.eng.store.DBs() {
			for owner := uint64(1); owner <= 12; owner++ {
				if gs := db.GuardSet(owner); gs != nil {
					gs.Unlock()
				}
			}
		}
		_ = n.eng.store.Close()
		n.eng.store, n.eng.db = nil, nil
	}
}

// haltViaMount: F_SETLKW of the HALT byte on the database's -lock file, as an application does it
// through the mount (LockNode.Open, LockHandle.LockWait).
func (n *clusterNode) haltViaMount(ctx context.Context, id int64) string {
	pos := func() string {
		rl := n.eng.db.RemoteHaltLock()
		if rl == nil {
			if n.eng.store.IsPrimary() {
				return "err primary"
			}
			return "err"
		}
		return fmt.Sprintf("ok pos=%d:%016x", uint64(rl.Pos.TXID), uint64(rl.Pos.PostApplyChecksum))
	}
	if n.haltH[id] != nil {
		// the application already holds the byte through this handle; a retried call of an
		// interrupted request reaches the primary with the same lock id
		rl := n.eng.db.RemoteHaltLock()
		if rl == nil {
			return "err"
		}
		hl, err := n.eng.db.AcquireRemoteHaltLock(ctx, rl.ID)
		if err != nil {
			if os.Getenv("VERIF_LOG") != "" {
				fmt.Fprintln(os.Stderr, "repeated halt via mount:", err)
			}
			return "err"
		}
		return fmt.Sprintf("ok pos=%d:%016x", uint64(hl.Pos.TXID), uint64(hl.Pos.PostApplyChecksum))
	}
	node, err := n.eng.mount.root.Lookup(ctx, "db-lock")
	if err != nil {
		return "err"
	}
	ln, ok := node.(*lfuse.LockNode)
	if !ok {
		return "err"
	}
	hh, err := ln.Open(ctx, &fuse.OpenRequest{Flags: fuse.OpenReadWrite}, &fuse.OpenResponse{})
	if err != nil {
		return "err"
	}
	h := hh.(*lfuse.LockHandle)
	fl := fuse.FileLock{Start: uint64(litefs.LockTypeHalt), End: uint64(litefs.LockTypeHalt), Type: fuse.LockWrite}
	if err := h.LockWait(ctx, &fuse.LockWaitRequest{LockOwner: 1, Lock: fl}); err != nil {
		if os.Getenv("VERIF_LOG") != "" {
			fmt.Fprintln(os.Stderr, "halt via mount:", err)
		}
		return "err"
	}
	n.eng.c.Count("mount.halt")
	out := pos()
	if strings.HasPrefix(out, "ok ") {
		if n.haltH == nil {
			n.haltH = map[int64]*lfuse.LockHandle{}
		}
		n.haltH[id] = h
	}
	return out
}

func (m *clusterImpl) start(k int) string {
	n := m.nodes[k]
	if n.up {
		return "bad-op"
	}
	n.leaser = &nodeLeaser{svc: m.svc, idx: k, host: fmt.Sprintf("node%d", k)}
	n.client = &netClient{inner: lhttp.NewClient(), streams: map[*netStream]struct{}{}}
	n.eng.exit = 0
	n.pctx = nil
	n.haltH = nil
	n.eng.configure = func(st *litefs.Store) error {
		srv := lhttp.NewServer(st, "127.0.0.1:0")
		if err := srv.Listen(); err != nil {
			return err
		}
		n.srv = srv
		n.leaser.url = srv.URL()
		if m.consul != nil {
			// the real Consul leaser, talking to the fake Consul server
			in := consul.NewLeaser(m.consul.URL(k), consulKey, n.leaser.host, n.leaser.url)
			in.TTL = 200 * time.Millisecond
			m.svc.mu.Lock()
			if m.svc.ttlLong {
				in.TTL = time.Hour
			} else if m.svc.ttlMid {
				in.TTL = 2500 * time.Millisecond
			}
			m.svc.mu.Unlock()
			if err := in.Open(); err != nil {
				return err
			}
			n.leaser.inner = in
		}
		st.Leaser = n.leaser
		st.Client = n.client
		st.DatabaseFilter = append([]string{}, n.filter...)
		st.ReconnectDelay = 3 * time.Millisecond
		st.DemoteDelay = 20 * time.Millisecond
		st.HaltLockMonitorInterval = 15 * time.Millisecond
		st.HaltAcquireTimeout = 400 * time.Millisecond
		st.HaltLockTTL = time.Hour
		return nil
	}
	role := "replica"
	if n.cand {
		role = "primary" // candidate
	}
	if err := n.eng.openStore(role); err != nil {
		if m.c != nil {
			m.c.Stats.Notes = append(m.c.Stats.Notes, "open: "+oneLine(err.Error()))
		}
		if n.srv != nil {
			_ = n.srv.Close()
			n.srv = nil
		}
		return "err open"
	}
	n.srv.Serve()
	n.up = true
	return "ok"
}

func (m *clusterImpl) primary() int {
	for i, n := range m.nodes {
		if n.up && n.eng.store != nil && n.eng.store.IsPrimary() {
			return i
		}
	}
	return -1
}

func posMapStr(pm map[string]ltx.Pos) string {
	var ks []string
	for k := range pm {
		ks = append(ks, k)
	}
	sort.Strings(ks)
	var sb strings.Builder
	for _, k := range ks {
		fmt.Fprintf(&sb, "%s=%d:%016x,", k, uint64(pm[k].TXID), uint64(pm[k].PostApplyChecksum))
	}
	return sb.String()
}

// settled: exactly one node holds the lease, and every connected live replica points at it and
// has its position map.
func (m *clusterImpl) settled() (bool, string) {
	m.svc.mu.Lock()
	holder := m.svc.holder
	m.svc.mu.Unlock()
	if holder == -1 {
		return false, "no-primary"
	}
	p := m.nodes[holder]
	if !p.up || p.eng.store == nil || !p.eng.store.IsPrimary() {
		m.svc.mu.Lock()
		ev := strings.Join(m.svc.log[max(0, len(m.svc.log)-6):], ";")
		m.svc.mu.Unlock()
		return false, fmt.Sprintf("primary-not-ready holder=%d up=%v events=%s", holder, p.up, ev)
	}
	// databases the primary has at TXID >= 1 (a database at the zero position has nothing to send)
	ppm := p.eng.store.PosMap()
	for k, v := range ppm {
		if v.TXID == 0 {
			delete(ppm, k)
		}
	}
	want := posMapStr(ppm)
	for i, n := range m.nodes {
		if i == holder || !n.up || n.eng.store == nil || n.client.blocked.Load() || n.eng.exit != 0 {
			continue
		}
		if n.eng.store.IsPrimary() {
			return false, fmt.Sprintf("two-primaries %d", i)
		}
		_, info := n.eng.store.PrimaryInfo()
		if info == nil || info.AdvertiseURL != p.leaser.url {
			return false, fmt.Sprintf("node %d not connected", i)
		}
		rpm := n.eng.store.PosMap()
		for k := range rpm {
			if _, ok := ppm[k]; !ok {
				delete(rpm, k)
			}
		}
		want := want
		if len(n.filter) > 0 { // a replica that is configured to replicate only some databases
			fpm := map[string]ltx.Pos{}
			for _, name := range n.filter {
				if v, ok := ppm[name]; ok {
					fpm[name] = v
				}
			}
			want = posMapStr(fpm)
		}
		if got := posMapStr(rpm); got != want {
			return false, fmt.Sprintf("node %d lags", i)
		}
	}
	return true, ""
}

func (m *clusterImpl) node(s string) (*clusterNode, int) {
	k, err := strconv.Atoi(s)
	if err != nil || k < 0 || k >= len(m.nodes) {
		return nil, -1
	}
	return m.nodes[k], k
}

func (m *clusterImpl) Do(line string) string {
	f := strings.Fields(line)
	if len(f) == 0 {
		return "bad-op"
	}
	if strings.HasPrefix(line, "ref ") || f[0] == "hist" {
		return "ok"
	}
	switch f[0] {
	case "cluster":
		if len(f) < 2 || m.nodes != nil {
			return "bad-op"
		}
		k, err := strconv.Atoi(f[1])
		if err != nil || k < 1 || k > 5 {
			return "bad-op"
		}
		m.svc = newLeaseSvc()
		for _, a := range f[2:] {
			if a == "consul" { // the nodes use consul.Leaser against a fake Consul server
				fc, err := newFakeConsul(m.svc)
				if err != nil {
					return "err"
				}
				m.consul = fc
			}
		}
		for i := 0; i < k; i++ {
			n := &clusterNode{cand: true}
			n.eng.c = m.c
			m.nodes = append(m.nodes, n)
		}
		for _, a := range f[2:] { // non-candidates: "nc=<k>"
			if strings.HasPrefix(a, "nc=") {
				if n, _ := m.node(a[3:]); n != nil {
					n.cand = false
				}
			}
		}
		return "ok"
	case "n":
		if len(f) < 3 {
			return "bad-op"
		}
		n, _ := m.node(f[1])
		if n == nil {
			return "bad-op"
		}
		if !n.up {
			return "down"
		}
		if n.eng.db == nil && n.eng.store != nil {
			if n.eng.db = n.eng.store.DB("db"); n.eng.db != nil {
				n.eng.db.Now = func() time.Time { return fixedNow }
			}
		}
		out := n.eng.Do(strings.Join(f[2:], " "))
		if out == "false" && (f[2] == "lock" || f[2] == "rlock") {
			// SQLite's busy handler: a lock refused because LiteFS itself holds it for a moment
			// (a stream frame being applied, a snapshot being read) is asked for again
			for i := 0; i < 50 && out == "false"; i++ {
				time.Sleep(5 * time.Millisecond)
				out = n.eng.Do(strings.Join(f[2:], " "))
			}
		}
		return out
	case "up":
		if len(f) != 2 {
			return "bad-op"
		}
		_, k := m.node(f[1])
		if k < 0 {
			return "bad-op"
		}
		return m.start(k)
	case "crash": // the node's process dies: nothing is closed or recovered; `up` restarts on what it left
		if len(f) != 2 {
			return "bad-op"
		}
		n, _ := m.node(f[1])
		if n == nil || !n.up {
			return "bad-op"
		}
		n.up = false
		if n.srv != nil {
			_ = n.srv.Close()
			n.srv = nil
		}
		n.client.block(true)
		n.leaser.dead.Store(true)
		m.svc.mu.Lock()
		if m.svc.holder == n.leaser.idx {
			m.svc.holder = -1 // the lease of a dead process runs out
			m.svc.event("expire")
		}
		m.svc.mu.Unlock()
		return n.eng.crashRestart("")
	case "down":
		if len(f) != 2 {
			return "bad-op"
		}
		n, _ := m.node(f[1])
		if n == nil || !n.up {
			return "bad-op"
		}
		m.stop(n)
		return "ok"
	case "allow":
		if len(f) != 2 {
			return "bad-op"
		}
		k, err := strconv.Atoi(f[1])
		if err != nil || k < -1 || k >= len(m.nodes) {
			return "bad-op"
		}
		m.svc.mu.Lock()
		m.svc.allow = k
		m.svc.mu.Unlock()
		return "ok"
	case "demote", "demote-nowait": // demote-nowait: an application connection holds a lock, so the demoted node's recovery cannot finish yet
		if len(f) != 2 {
			return "bad-op"
		}
		n, _ := m.node(f[1])
		if n == nil || !n.up {
			return "bad-op"
		}
		if !n.eng.store.IsPrimary() {
			return "not-primary"
		}
		// the demoted node leaves monitorLeaseAsPrimary, waits DemoteDelay, recovers its
		// databases and starts the next iteration of its lease loop: wait for that iteration
		c0 := n.leaser.ticks.Load()
		n.eng.store.Demote()
		for i := 0; i < 3000 && (n.eng.store.IsPrimary() || (n.leaser.ticks.Load() == c0 && f[0] == "demote")); i++ {
			time.Sleep(time.Millisecond)
		}
		if n.eng.store.IsPrimary() {
			return "still-primary"
		}
		if n.leaser.ticks.Load() == c0 && f[0] == "demote" {
			return "no-recover"
		}
		return "ok"
	case "expire":
		m.svc.mu.Lock()
		m.svc.holder = -1
		m.svc.event("expire")
		m.svc.mu.Unlock()
		return "ok"
	case "net":
		if len(f) != 3 {
			return "bad-op"
		}
		n, _ := m.node(f[1])
		if n == nil || !n.up {
			return "bad-op"
		}
		c0 := n.leaser.ticks.Load()
		had := n.client.block(f[2] == "off")
		if had {
			// the replica notices the broken stream, recovers and starts its next loop iteration
			for i := 0; i < 3000 && n.leaser.ticks.Load() == c0; i++ {
				time.Sleep(time.Millisecond)
			}
			if n.leaser.ticks.Load() == c0 {
				return "no-recover"
			}
		}
		return "ok"
	case "stream-hold", "stream-release": // <k>: what the primary streams to node k stays in flight / is delivered
		if len(f) != 2 {
			return "bad-op"
		}
		n, _ := m.node(f[1])
		if n == nil || !n.up {
			return "bad-op"
		}
		n.client.held.Store(f[0] == "stream-hold")
		if f[0] == "stream-release" {
			time.Sleep(30 * time.Millisecond)
		}
		return "ok"
	case "halt-bg": // halt-bg <k> <id>: the acquire request is issued in the background (it queues on the primary behind an open application transaction)
		if len(f) != 3 {
			return "bad-op"
		}
		n, _ := m.node(f[1])
		if n == nil || !n.up {
			return "bad-op"
		}
		if n.eng.db == nil {
			if n.eng.db = n.eng.store.DB("db"); n.eng.db != nil {
				n.eng.db.Now = func() time.Time { return fixedNow }
			}
		}
		id, err := strconv.ParseInt(f[2], 10, 64)
		if err != nil || n.eng.db == nil {
			return "bad-op"
		}
		ch := make(chan string, 1)
		n.bgHalt = ch
		db := n.eng.db
		go func() {
			ctx, cancel := context.WithTimeout(context.Background(), 3*time.Second)
			defer cancel()
			hl, err := db.AcquireRemoteHaltLock(ctx, id)
			if err != nil {
				if os.Getenv("VERIF_LOG") != "" {
					fmt.Fprintln(os.Stderr, "halt-bg error:", err)
				}
				if errors.Is(err, litefs.ErrNoHaltPrimary) {
					ch <- "err primary"
				} else {
					ch <- "err"
				}
				return
			}
			ch <- fmt.Sprintf("ok pos=%d:%016x", uint64(hl.Pos.TXID), uint64(hl.Pos.PostApplyChecksum))
		}()
		time.Sleep(40 * time.Millisecond) // the request reaches the primary and waits for the application's locks
		return "started"
	case "import-bg": // import-bg <k> <image>: POST /import on node k's HTTP server, issued in the background (it queues behind the locks an application connection holds)
		if len(f) != 3 {
			return "bad-op"
		}
		n, _ := m.node(f[1])
		data, ok := bytesOf(f[2])
		if n == nil || !n.up || !ok {
			return "bad-op"
		}
		pos := func() string {
			if db := n.eng.store.DB("db"); db != nil {
				p := db.Pos()
				return fmt.Sprintf("%d:%016x", uint64(p.TXID), uint64(p.PostApplyChecksum))
			}
			return "0:0000000000000000"
		}
		ch := make(chan string, 1)
		n.bgImp = ch
		url := n.leaser.url
		go func() {
			req, err := http.NewRequest("POST", url+"/import?name=db", bytes.NewReader(data))
			if err != nil {
				ch <- "refused"
				return
			}
			hc := &http.Client{Timeout: 4 * time.Second}
			resp, err := hc.Do(req)
			if err != nil {
				if os.Getenv("VERIF_LOG") != "" {
					fmt.Fprintln(os.Stderr, "import-bg error:", err)
				}
				ch <- "refused"
				return
			}
			_, _ = io.Copy(io.Discard, resp.Body)
			_ = resp.Body.Close()
			if resp.StatusCode == 200 {
				ch <- "ok"
			} else {
				ch <- "refused"
			}
		}()
		time.Sleep(60 * time.Millisecond) // the request reaches the node and waits for the application's locks
		return "started pos=" + pos()
	case "import-join": // import-join <k>: the answer to the background import, and the node's position after it
		if len(f) != 2 {
			return "bad-op"
		}
		n, _ := m.node(f[1])
		if n == nil || n.bgImp == nil || !n.up {
			return "bad-op"
		}
		ch := n.bgImp
		n.bgImp = nil
		var out string
		select {
		case out = <-ch:
		case <-time.After(5 * time.Second):
			return "hang"
		}
		time.Sleep(20 * time.Millisecond)
		p := "0:0000000000000000"
		if db := n.eng.store.DB("db"); db != nil {
			pp := db.Pos()
			p = fmt.Sprintf("%d:%016x", uint64(pp.TXID), uint64(pp.PostApplyChecksum))
		}
		return out + " pos=" + p
	case "halt-join": // halt-join <k>: the answer to the background request
		if len(f) != 2 {
			return "bad-op"
		}
		n, _ := m.node(f[1])
		if n == nil || n.bgHalt == nil {
			return "bad-op"
		}
		ch := n.bgHalt
		n.bgHalt = nil
		select {
		case out := <-ch:
			return out
		case <-time.After(4 * time.Second):
			return "hang"
		}
	case "halt", "unhalt", "unhalt-intr", "halt-expire", "halt-ttl": // halt <k> <id> | unhalt <k> <id> | halt-expire <p> | halt-http <p> <METHOD> <id> <own-of-node|other>
		if len(f) < 2 {
			return "bad-op"
		}
		n, _ := m.node(f[1])
		if n == nil || !n.up {
			return "bad-op"
		}
		if n.eng.db == nil {
			if n.eng.db = n.eng.store.DB("db"); n.eng.db != nil {
				n.eng.db.Now = func() time.Time { return fixedNow }
			}
		}
		ctx, cancel := context.WithTimeout(context.Background(), 1500*time.Millisecond)
		defer cancel()
		switch f[0] {
		case "halt":
			if len(f) != 3 || n.eng.db == nil {
				return "bad-op"
			}
			id, err := strconv.ParseInt(f[2], 10, 64)
			if err != nil {
				return "bad-op"
			}
			if n.eng.mount != nil && (n.haltH[id] != nil || n.eng.db.RemoteHaltLock() == nil) {
				// mount mode (unless the lock was taken by a background request, which uses the label as id): the application takes the HALT byte of the database's -lock file
				// (fuse/lock_node.go); the lock id is the handle's own, `id` only labels the handle
				return n.haltViaMount(ctx, id)
			}
			hl, err := n.eng.db.AcquireRemoteHaltLock(ctx, id)
			if err != nil {
				if errors.Is(err, litefs.ErrNoHaltPrimary) {
					return "err primary"
				}
				return "err"
			}
			return fmt.Sprintf("ok pos=%d:%016x", uint64(hl.Pos.TXID), uint64(hl.Pos.PostApplyChecksum))
		case "unhalt":
			if len(f) != 3 || n.eng.db == nil {
				return "bad-op"
			}
			id, err := strconv.ParseInt(f[2], 10, 64)
			if err != nil {
				return "bad-op"
			}
			if h := n.haltH[id]; h != nil && n.eng.mount != nil {
				delete(n.haltH, id)
				fl := fuse.FileLock{Start: uint64(litefs.LockTypeHalt), End: uint64(litefs.LockTypeHalt), Type: fuse.LockUnlock}
				if err := h.Unlock(ctx, &fuse.UnlockRequest{LockOwner: 1, Lock: fl}); err != nil {
					return "err"
				}
				n.eng.c.Count("mount.unhalt")
				return "ok"
			}
			if err := n.eng.db.ReleaseRemoteHaltLock(ctx, id); err != nil {
				return "err"
			}
			return "ok"
		case "unhalt-intr": // unhalt-intr <k> <id>: the release request is interrupted (its context is cancelled, as a FUSE INTERRUPT does)
			if len(f) != 3 || n.eng.db == nil {
				return "bad-op"
			}
			id, err := strconv.ParseInt(f[2], 10, 64)
			if err != nil {
				return "bad-op"
			}
			ictx, icancel := context.WithCancel(ctx)
			icancel()
			if h := n.haltH[id]; h != nil && n.eng.mount != nil {
				fl := fuse.FileLock{Start: uint64(litefs.LockTypeHalt), End: uint64(litefs.LockTypeHalt), Type: fuse.LockUnlock}
				err = h.Unlock(ictx, &fuse.UnlockRequest{LockOwner: 1, Lock: fl})
				n.eng.c.Count("mount.unhalt-intr")
				switch {
				case err == nil:
					delete(n.haltH, id)
					return "ok"
				case syscall.Errno(fuse.ToErrno(err)) == syscall.EINTR:
					return "eintr"
				}
				return "err"
			}
			err = n.eng.db.ReleaseRemoteHaltLock(ictx, id)
			switch {
			case err == nil:
				return "ok"
			case errors.Is(err, context.Canceled):
				return "eintr"
			}
			return "err"
		case "halt-ttl": // halt-ttl <p> short|long: TTL of the halt locks this node grants from now on
			if len(f) != 3 {
				return "bad-op"
			}
			if f[2] == "short" {
				n.eng.store.HaltLockTTL = haltTTL
			} else {
				n.eng.store.HaltLockTTL = time.Hour
			}
			return "ok"
		case "halt-expire": // a short-lived halt lock of this node reaches its expiry and the monitor runs
			if n.eng.db == nil {
				return "bad-op"
			}
			time.Sleep(haltTTL + 60*time.Millisecond) // the node's halt-lock monitor runs every 15 ms
			n.eng.store.EnforceHaltLockExpiration(ctx)
			return "ok"
		}
		return "bad-op"
	case "snap-arm", "snap-wait", "snap-release":
		if len(f) != 2 {
			return "bad-op"
		}
		n, _ := m.node(f[1])
		if n == nil || !n.up {
			return "bad-op"
		}
		switch f[0] {
		case "snap-arm":
			if n.eng.db == nil {
				n.eng.db = n.eng.store.DB("db")
			}
			if n.eng.db == nil || (n.gate != nil && n.gate.armed.Load()) {
				return "bad-op"
			}
			g := &snapGate{paused: make(chan struct{}), release: make(chan struct{})}
			g.armed.Store(true)
			n.gate = g
			if n.hooked != n.eng.db {
				n.hooked = n.eng.db
				node := n
				n.eng.db.VerifSetLockHook(func(t litefs.LockType, prev, next litefs.RWMutexState) {
					g := node.gate
					if g != nil && t == litefs.LockTypeCkpt && prev == litefs.RWMutexStateUnlocked && next == litefs.RWMutexStateShared &&
						g.armed.CompareAndSwap(true, false) {
						close(g.paused)
						select {
						case <-g.release:
						case <-time.After(5 * time.Second):
						}
					}
				})
			}
			return "ok"
		case "snap-wait":
			if n.gate == nil {
				return "bad-op"
			}
			select {
			case <-n.gate.paused:
				return "paused"
			case <-time.After(1500 * time.Millisecond):
				return "no"
			}
		default:
			if n.gate == nil {
				return "bad-op"
			}
			select {
			case <-n.gate.release:
			default:
				close(n.gate.release)
			}
			n.gate.armed.Store(false)
			return "ok"
		}
	case "sync":
		// The settle budget counts the time in which this loop itself got to run.  When the process or
		// the machine is stalled (memory pressure, a burst of other work) the gap between two polls is far
		// longer than the poll period, and the node goroutines did not run in that gap either: such a
		// gap counts for at most 50 ms, up to a hard limit of five settle times on the wall clock.
		var used, longest time.Duration
		start := time.Now()
		last := start
		hard := start.Add(5 * clusterSettle)
		why := ""
		stable := 0
		for used < clusterSettle && last.Before(hard) {
			ok, w := m.settled()
			why = w
			if ok {
				stable++
				if stable >= 3 {
					return "ok"
				}
			} else {
				stable = 0
			}
			time.Sleep(2 * time.Millisecond)
			now := time.Now()
			gap := now.Sub(last)
			last = now
			if gap > longest {
				longest = gap
			}
			if gap > 50*time.Millisecond {
				gap = 50 * time.Millisecond
			}
			used += gap
		}
		if m.c != nil {
			m.c.Stats.Notes = append(m.c.Stats.Notes, fmt.Sprintf("sync: %s (waited %d ms on the wall clock, longest gap between two polls %d ms)", why, time.Since(start).Milliseconds(), longest.Milliseconds()))
		}
		return "lag"
	case "filter": // filter <k> <hex name,hex name,...>: the databases node k replicates when it is a replica (takes effect at its next start)
		if len(f) != 3 {
			return "bad-op"
		}
		n, _ := m.node(f[1])
		if n == nil || n.up {
			return "bad-op"
		}
		n.filter = nil
		for _, hx := range strings.Split(f[2], ",") {
			b, err := hex.DecodeString(hx)
			if err != nil || len(b) == 0 {
				return "bad-op"
			}
			n.filter = append(n.filter, string(b))
		}
		return "ok"
	case "xdb": // xdb <k> <hex name> <image>: one transaction (import) on another database of node k
		if len(f) != 4 {
			return "bad-op"
		}
		n, _ := m.node(f[1])
		nb, err := hex.DecodeString(f[2])
		data, ok := bytesOf(f[3])
		if n == nil || !n.up || err != nil || !ok || len(nb) == 0 {
			return "bad-op"
		}
		db, err := n.eng.store.CreateDBIfNotExists(string(nb))
		if err != nil {
			return "err"
		}
		db.Now = func() time.Time { return fixedNow }
		ictx, icancel := context.WithTimeout(context.Background(), 2*time.Second)
		defer icancel()
		if err := db.Import(ictx, bytes.NewReader(data)); err != nil {
			return errStr(err)
		}
		if m.xdbs == nil {
			m.xdbs = map[string]bool{}
		}
		m.xdbs[string(nb)] = true
		return "ok"
	case "xdb-check": // every connected replica holds each of the primary's other databases it is configured to replicate at the primary's position, and none of the others
		var prim *clusterNode
		for _, n := range m.nodes {
			if n.up && n.eng.store != nil && n.eng.store.IsPrimary() {
				prim = n
			}
		}
		if prim == nil {
			return "no-primary"
		}
		verdict := "ok"
		for i := 0; i < 400; i++ {
			verdict = "ok"
			for k, n := range m.nodes {
				if n == prim || !n.up || n.eng.store == nil {
					continue
				}
				for name := range m.xdbs {
					pdb := prim.eng.store.DB(name)
					if pdb == nil {
						continue
					}
					wanted := len(n.filter) == 0
					for _, fn := range n.filter {
						if fn == name {
							wanted = true
						}
					}
					rdb := n.eng.store.DB(name)
					switch {
					case wanted && rdb == nil:
						verdict = fmt.Sprintf("mismatch: node %d does not have database %q, which it is configured to replicate (primary at %s)", k, name, pdb.Pos())
					case wanted && rdb.Pos() != pdb.Pos():
						verdict = fmt.Sprintf("mismatch: node %d holds %q at %s, the primary is at %s", k, name, rdb.Pos(), pdb.Pos())
					case !wanted && rdb != nil && rdb.Pos().TXID != 0:
						verdict = fmt.Sprintf("mismatch: node %d replicated %q although its filter leaves it out", k, name)
					}
				}
			}
			if verdict == "ok" {
				break
			}
			time.Sleep(5 * time.Millisecond)
		}
		return verdict
	case "consul-acqex": // consul-acqex <k>: node k is handed a session that is alive but does not hold the key (another session took the key over in between): the real Consul leaser's AcquireExisting
		if len(f) != 2 {
			return "bad-op"
		}
		n, k := m.node(f[1])
		if n == nil || !n.up || m.consul == nil || n.leaser == nil || n.leaser.inner == nil {
			return "bad-op"
		}
		id := m.consul.strangerSession(k)
		actx, acancel := context.WithTimeout(context.Background(), 2*time.Second)
		defer acancel()
		lease, err := n.leaser.inner.AcquireExisting(actx, id)
		switch {
		case err == nil && lease != nil:
			_ = lease.Close()
			return "acquired"
		case errors.Is(err, litefs.ErrPrimaryExists):
			return "primary-exists"
		case errors.Is(err, litefs.ErrLeaseExpired):
			return "lease-expired"
		}
		return "err"
	case "wait-ms": // wait-ms <n>: real time passes (a time-out of the code under test runs out)
		if len(f) != 2 {
			return "bad-op"
		}
		n, err := strconv.Atoi(f[1])
		if err != nil || n < 0 || n > 7000 {
			return "bad-op"
		}
		time.Sleep(time.Duration(n) * time.Millisecond)
		return "ok"
	case "pause": // let in-flight stream frames land (e.g. a forwarded transaction echoed back to its author)
		time.Sleep(40 * time.Millisecond)
		return "ok"
	case "roles": // <k>=<primary|replica|idle|down>/<cluster id class>
		var sb strings.Builder
		for i, n := range m.nodes {
			r := "down"
			cid := "-"
			if n.up && n.eng.store != nil {
				isP, info := n.eng.store.PrimaryInfo()
				switch {
				case isP:
					r = "primary"
				case n.client.blocked.Load():
					r = "cut" // it keeps trying: whether it is between two attempts is not stable
				case info != nil:
					r = "replica"
				default:
					r = "idle"
				}
				cid = m.cidClass(n.eng.store.ClusterID())
			}
			fmt.Fprintf(&sb, "%d=%s/%s ", i, r, cid)
		}
		m.svc.mu.Lock()
		fmt.Fprintf(&sb, "svc=%d/%s", m.svc.holder, m.cidClass(m.svc.clusterID))
		m.svc.mu.Unlock()
		return sb.String()
	case "events": // lease-service events since the last call
		m.svc.mu.Lock()
		ev := strings.Join(m.svc.log, ";")
		m.svc.log = nil
		m.svc.mu.Unlock()
		if ev == "" {
			return "-"
		}
		return ev
	case "lease-ttl":
		if len(f) != 2 {
			return "bad-op"
		}
		m.svc.mu.Lock()
		m.svc.ttlLong = f[1] == "long"
		m.svc.ttlMid = f[1] == "mid"
		m.svc.mu.Unlock()
		for _, n := range m.nodes {
			if n.leaser != nil && n.leaser.inner != nil {
				switch f[1] {
				case "long":
					n.leaser.inner.TTL = time.Hour
				case "mid":
					n.leaser.inner.TTL = 2500 * time.Millisecond
				default:
					n.leaser.inner.TTL = 200 * time.Millisecond
				}
			}
		}
		return "ok"
	case "renewfail-next":
		if len(f) != 2 {
			return "bad-op"
		}
		n, err := strconv.Atoi(f[1])
		if err != nil {
			return "bad-op"
		}
		m.svc.mu.Lock()
		m.svc.failNext = n
		m.svc.mu.Unlock()
		return "ok"
	case "renewerr":
		if len(f) != 2 {
			return "bad-op"
		}
		m.svc.mu.Lock()
		m.svc.renewErr = f[1] == "on"
		holder := m.svc.holder
		m.svc.mu.Unlock()
		if f[1] == "on" && holder >= 0 && m.nodes[holder].up {
			// renewals now fail: the primary gives up once a full TTL has passed without one
			for i := 0; i < 5000 && m.nodes[holder].eng.store.IsPrimary(); i++ {
				time.Sleep(time.Millisecond)
			}
		}
		return "ok"
	case "cid-fault": // cid-fault arm|off|wait: the lease service stops answering cluster-id lookups right after the next successful Acquire
		if len(f) != 2 {
			return "bad-op"
		}
		switch f[1] {
		case "arm":
			m.svc.mu.Lock()
			m.svc.cidArmed = true
			m.svc.mu.Unlock()
			return "ok"
		case "off":
			m.svc.mu.Lock()
			m.svc.cidArmed, m.svc.cidErr = false, false
			m.svc.mu.Unlock()
			return "ok"
		case "wait": // has the fault fired, and has the winner given the lease back?
			for i := 0; i < 3000; i++ {
				m.svc.mu.Lock()
				fired, holder := m.svc.cidErr, m.svc.holder
				m.svc.mu.Unlock()
				if fired && holder == -1 {
					return "fired"
				}
				time.Sleep(time.Millisecond)
			}
			m.svc.mu.Lock()
			fired := m.svc.cidErr
			m.svc.mu.Unlock()
			if fired {
				return "fired lease-kept"
			}
			return "not-fired"
		}
		return "bad-op"
	case "clusterid-svc":
		if len(f) != 2 {
			return "bad-op"
		}
		m.svc.mu.Lock()
		m.svc.clusterID = cidOf(f[1])
		m.svc.mu.Unlock()
		return "ok"
	case "clusterid-node": // clusterid-node <k> <A|B>: what the node's data directory holds (node must be down)
		if len(f) != 3 {
			return "bad-op"
		}
		n, _ := m.node(f[1])
		if n == nil || n.up {
			return "bad-op"
		}
		if n.eng.dir == "" {
			d, err := os.MkdirTemp(os.Getenv("VERIF_SCRATCH"), "verif-eng-")
			if err != nil {
				return "err"
			}
			n.eng.dir = d
		}
		_ = os.MkdirAll(filepath.Join(n.eng.dir, "data"), 0o777)
		if err := os.WriteFile(filepath.Join(n.eng.dir, "data", "clusterid"), []byte(cidOf(f[2])+"\n"), 0o666); err != nil {
			return "err"
		}
		return "ok"
	case "handoff", "handoff-stalled": // handoff <p> <k>: ask node p to hand its lease to node k (-stalled: k's stream handler on p is blocked, the script says so to the model)
		if len(f) != 3 {
			return "bad-op"
		}
		p, _ := m.node(f[1])
		k, _ := m.node(f[2])
		if p == nil || k == nil || !p.up || !k.up {
			return "bad-op"
		}
		ctx, cancel := context.WithTimeout(context.Background(), time.Second)
		defer cancel()
		m.svc.mu.Lock()
		fn0 := m.svc.failNext
		m.svc.mu.Unlock()
		if err := p.eng.store.Handoff(ctx, k.eng.store.ID()); err != nil {
			return "err"
		}
		if fn0 > 0 { // the handoff will fail at its renewal: wait until that renewal was attempted
			for i := 0; i < 1000; i++ {
				m.svc.mu.Lock()
				done := m.svc.failNext < fn0
				m.svc.mu.Unlock()
				if done {
					break
				}
				time.Sleep(time.Millisecond)
			}
			time.Sleep(5 * time.Millisecond)
		}
		return "ok"
	case "pctx-take", "pctx": // a primary-scoped context taken while the node is primary; is it still alive?
		if len(f) != 2 {
			return "bad-op"
		}
		n, _ := m.node(f[1])
		if n == nil || !n.up {
			return "bad-op"
		}
		if f[0] == "pctx-take" {
			n.pctx = n.eng.store.PrimaryCtx(context.Background())
			if n.pctx.Err() != nil {
				return "done"
			}
			return "alive"
		}
		if n.pctx == nil {
			return "none"
		}
		if n.pctx.Err() != nil {
			return "done"
		}
		return "alive"
	case "quiet": // wait until every node's belief about being primary agrees with the lease service
		deadline := time.Now().Add(4 * time.Second)
		stable := 0
		for time.Now().Before(deadline) {
			m.svc.mu.Lock()
			holder := m.svc.holder
			m.svc.mu.Unlock()
			ok := true
			for i, n := range m.nodes {
				if n.up && n.eng.store != nil && n.eng.store.IsPrimary() != (holder == i) {
					ok = false
				}
			}
			if ok {
				stable++
				if stable >= 25 {
					return "ok"
				}
			} else {
				stable = 0
			}
			time.Sleep(2 * time.Millisecond)
		}
		return "lag"
	}
	return "bad-op"
}

// cluster ids of the suites: class A / B are fixed valid ids; ids generated by a node are numbered
// in order of first appearance
func cidOf(class string) string {
	switch class {
	case "A":
		return "LFSCAAAAAAAAAAAAAAAA"
	case "B":
		return "LFSCBBBBBBBBBBBBBBBB"
	}
	return ""
}

func (m *clusterImpl) cidClass(id string) string {
	switch id {
	case "":
		return "none"
	case cidOf("A"):
		return "A"
	case cidOf("B"):
		return "B"
	}
	for i, g := range m.genIDs {
		if g == id {
			return fmt.Sprintf("G%d", i+1)
		}
	}
	m.genIDs = append(m.genIDs, id)
	return fmt.Sprintf("G%d", len(m.genIDs))
}
