import argparse, fcntl, hashlib, json, os, re, shutil, subprocess, sys, tempfile, time
from concurrent.futures import ThreadPoolExecutor

VERIF = os.path.dirname(os.path.dirname(os.path.abspath(__file__)))
REPO = os.environ.get("VERIF_REPO", "/repo")
LEAN = os.path.join(VERIF, "lean")
BUILD = os.path.join(VERIF, ".build")
REPLAYS = os.path.join(VERIF, "replays")
EVIDENCE = os.path.join(VERIF, "evidence")
CORPUS = os.path.join(VERIF, "corpus")
ALLOWED_AXIOMS = {"propext", "Classical.choice", "Quot.sound"}
FORBIDDEN = re.compile(r"\b(sorry|admit|native_decide|bv_decide|implemented_by|unsafe)\b|^\s*axiom\s|maxHeartbeats\s+0")

GOENV = dict(os.environ, GOFLAGS="-mod=mod", GOPROXY="off", GOSUMDB="off", GOTOOLCHAIN="local",
             CGO_ENABLED=os.environ.get("CGO_ENABLED", "1"))

from registry import PROPS, COMMON_TRUSTED


def log(*a):
    print(*a, file=sys.stderr, flush=True)


def run(cmd, cwd=None, env=None, timeout=None, stdin=None, stdout=subprocess.PIPE):
    return subprocess.run(cmd, cwd=cwd, env=env, timeout=timeout, stdin=stdin, stdout=stdout,
                          stderr=subprocess.STDOUT, text=True, errors="replace")


class BuildLock:
    def __enter__(self):
        os.makedirs(BUILD, exist_ok=True)
        self.f = open(os.path.join(BUILD, "lock"), "w")
        fcntl.flock(self.f, fcntl.LOCK_EX)
        return self

    def __exit__(self, *a):
        fcntl.flock(self.f, fcntl.LOCK_UN)
        self.f.close()


# ---------------------------------------------------------------------------------------------
# build steps
# ---------------------------------------------------------------------------------------------

def build_translator():
    out = os.path.join(BUILD, "translator")
    r = run(["go", "build", "-o", out, "."], cwd=os.path.join(VERIF, "translator"), env=GOENV)
    if r.returncode != 0:
        raise RuntimeError("translator build failed:\n" + r.stdout)
    return out


def regenerate():
    """run the translator; returns (ok, message)"""
    tr = build_translator()
    r = run([tr, "-repo", REPO, "-out", os.path.join(LEAN, "LiteFSVerif", "Gen")])
    return r.returncode == 0, r.stdout.strip()


def lake_build(targets):
    r = run(["lake", "build"] + targets, cwd=LEAN)
    return r.returncode == 0, r.stdout


def build_harness(race=False):
    hdir = os.path.join(VERIF, "harness")
    shutil.copyfile(os.path.join(REPO, "go.sum"), os.path.join(hdir, "go.sum"))
    out = os.path.join(BUILD, "harness-race" if race else "harness")
    cmd = ["go", "build", "-tags", "verif", "-o", out]
    if race:
        cmd.append("-race")
    cmd.append(".")
    r = run(cmd, cwd=hdir, env=GOENV)
    return (out if r.returncode == 0 else None), r.stdout


def theorem_names(prop):
    """every `theorem <ID>_…` stated in Props/<ID>.lean"""
    path = os.path.join(LEAN, "LiteFSVerif", "Props", prop + ".lean")
    names = []
    ns = []
    for line in open(path):
        m = re.match(r"\s*namespace\s+(\S+)", line)
        if m:
            ns.append(m.group(1))
        m = re.match(r"\s*end\s+(\S+)", line)
        if m and ns and ns[-1] == m.group(1):
            ns.pop()
        m = re.match(r"\s*theorem\s+(%s_[A-Za-z0-9_']+)" % prop, line)
        if m:
            names.append(".".join(ns + [m.group(1)]))
    return names


def source_audit(modules_dir):
    """forbidden constructs anywhere in the Lean sources (comments stripped crudely)"""
    hits = []
    for root, _, files in os.walk(modules_dir):
        for fn in files:
            if not fn.endswith(".lean"):
                continue
            p = os.path.join(root, fn)
            in_block = 0
            for i, line in enumerate(open(p, errors="replace"), 1):
                s = line
                # strip block comments (no nesting inside a line beyond simple cases)
                out = ""
                j = 0
                while j < len(s):
                    if s.startswith("/-", j):
                        in_block += 1
                        j += 2
                    elif s.startswith("-/", j) and in_block:
                        in_block -= 1
                        j += 2
                    elif in_block:
                        j += 1
                    else:
                        out += s[j]
                        j += 1
                out = out.split("--")[0]
                # ignore string literals
                out = re.sub(r'"(\\.|[^"\\])*"', '""', out)
                if FORBIDDEN.search(out):
                    hits.append("%s:%d: %s" % (os.path.relpath(p, LEAN), i, line.strip()))
    return hits


def axiom_audit(prop, names):
    """#print axioms for every property theorem; returns {name: [axioms]} or raises"""
    adir = os.path.join(LEAN, ".audit")
    os.makedirs(adir, exist_ok=True)
    path = os.path.join(adir, prop + ".lean")
    with open(path, "w") as f:
        f.write("import LiteFSVerif.Props.%s\n" % prop)
        for n in names:
            f.write("#print axioms %s\n" % n)
    r = run(["lake", "env", "lean", path], cwd=LEAN)
    res = {}
    text = r.stdout
    # messages: "'X' depends on axioms: [a, b]" or "'X' does not depend on any axioms"
    for m in re.finditer(r"'([^']+)' depends on axioms: \[([^\]]*)\]", text, re.S):
        res[m.group(1)] = [a.strip() for a in m.group(2).replace("\n", " ").split(",") if a.strip()]
    for m in re.finditer(r"'([^']+)' does not depend on any axioms", text):
        res[m.group(1)] = []
    if r.returncode != 0:
        raise RuntimeError("axiom audit failed:\n" + text)
    return res


# ---------------------------------------------------------------------------------------------
# correspondence
# ---------------------------------------------------------------------------------------------

def split_cases(lines):
    cases, cur = [], None
    for ln in lines:
        if ln.startswith("case "):
            cur = [ln]
            cases.append(cur)
        elif cur is not None:
            cur.append(ln)
    return cases


def first_divergence(ops, a, b):
    """index of first differing line, or None. Lists are line lists aligned with ops."""
    n = min(len(a), len(b))
    for i in range(n):
        if a[i] != b[i]:
            return i
    if len(a) != len(b):
        return n
    return None


def run_driver(exe, mode, ops_path, timeout=1200):
    with open(ops_path) as f:
        r = subprocess.run([exe, mode], stdin=f, stdout=subprocess.PIPE, stderr=subprocess.PIPE, text=True,
                           errors="replace", timeout=timeout)
    return r.returncode, r.stdout.split("\n")[:-1] if r.stdout.endswith("\n") else r.stdout.split("\n"), r.stderr


def read_lines(p):
    with open(p, errors="replace") as f:
        s = f.read()
    return s.split("\n")[:-1] if s.endswith("\n") else s.split("\n")


def case_of_line(ops, idx):
    """(start, end) line range of the case containing line idx"""
    s = idx
    while s > 0 and not ops[s].startswith("case "):
        s -= 1
    e = idx + 1
    while e < len(ops) and not ops[e].startswith("case "):
        e += 1
    return s, e


class SuiteResult:
    def __init__(self):
        self.stats = {}
        self.model_div = None   # (case ops, line idx in case, impl, model)
        self.spec_div = None
        self.spec_fails = []      # every FAIL verdict of a spec_on_impl run (known findings are matched per verdict)
        self.oracle_failures = []
        self.errors = []
        self.cases = 0
        self.ops = 0


def skey(suite):
    """a suite entry of the registry: its name plus its argument (one suite may be registered twice)"""
    return suite["name"] + (("/" + suite["arg"]) if suite.get("arg") else "")


def run_suite(harness, suite, seed, tier, scratch, replay=None, extra_args=None):
    """one harness run + model + spec comparison"""
    res = SuiteResult()
    tag = suite["name"] + ("-" + re.sub(r"[^A-Za-z0-9]+", "_", suite["arg"]) if suite.get("arg") else "")
    out = os.path.join(scratch, "%s-%d-%s" % (tag, seed, "r" if replay else "g"))
    os.makedirs(out, exist_ok=True)
    cmd = [harness, "-out", out, "-seed", str(seed), "-tier", tier]
    if replay:
        cmd += ["-replay", replay]
    cmd += (extra_args or [])
    if suite.get("arg"):
        cmd += ["-arg", suite["arg"]]
    cmd.append(suite["name"])
    env = dict(os.environ, GOMEMLIMIT=os.environ.get("GOMEMLIMIT", "6GiB"), GOTRACEBACK="single")
    try:
        r = run(cmd, env=env, timeout=suite.get("timeout", 3000))
    except subprocess.TimeoutExpired:
        res.errors.append("harness timed out on suite %s" % suite["name"])
        return res
    ops_p, impl_p = os.path.join(out, "ops.txt"), os.path.join(out, "impl.out")
    if r.returncode != 0:
        res.errors.append("harness exited %d on suite %s: %s" % (r.returncode, suite["name"], r.stdout[-2000:]))
        if not os.path.exists(ops_p):
            return res
    try:
        res.stats = json.load(open(os.path.join(out, "stats.json")))
    except Exception:
        res.stats = {}
    res.oracle_failures = res.stats.get("oracle_failures") or []
    ops, impl = read_lines(ops_p), read_lines(impl_p)
    res.ops, res.cases = len(ops), sum(1 for l in ops if l.startswith("case "))
    if len(ops) != len(impl):
        res.errors.append("ops/impl line count mismatch (%d vs %d): harness died mid-case" % (len(ops), len(impl)))
        n = min(len(ops), len(impl))
        ops, impl = ops[:n], impl[:n]
    res.ops_lines, res.impl_lines = ops, impl
    modeld = os.path.join(LEAN, ".lake", "build", "bin", "modeld")
    specd = os.path.join(LEAN, ".lake", "build", "bin", "specd")
    if suite.get("model") and os.path.exists(modeld):
        rc, mout, err = run_driver(modeld, suite["model"], ops_p)
        if rc != 0:
            res.errors.append("modeld %s exited %d: %s" % (suite["model"], rc, err[-500:]))
        i = first_divergence(ops, impl, mout[:len(impl)] if len(mout) >= len(impl) else mout)
        if i is not None:
            s, e = case_of_line(ops, min(i, len(ops) - 1))
            res.model_div = dict(ops=ops[s:e], at=i - s, impl=impl[s:e], other=mout[s:e], kind="model")
    elif suite.get("model"):
        res.errors.append("modeld not built")
    if suite.get("spec") and os.path.exists(specd):
        rc, sout, err = run_driver(specd, suite["spec"], ops_p if not suite.get("spec_on_impl") else _paste(ops_p, impl_p, out))
        if rc != 0:
            res.errors.append("specd %s exited %d: %s" % (suite["spec"], rc, err[-500:]))
        if suite.get("spec_on_impl"):
            # specd prints one verdict line per input line: "ok" or "FAIL <why>"
            for i, ln in enumerate(sout[:len(ops)]):
                if ln.startswith("FAIL"):
                    s, e = case_of_line(ops, i)
                    d = dict(ops=ops[s:e], at=i - s, impl=impl[s:e], other=sout[s:e], kind="spec")
                    if res.spec_div is None:
                        res.spec_div = d
                    res.spec_fails.append(d)
                    if len(res.spec_fails) >= 200:
                        break
        else:
            i = first_divergence(ops, impl, sout[:len(impl)] if len(sout) >= len(impl) else sout)
            if i is not None:
                s, e = case_of_line(ops, min(i, len(ops) - 1))
                res.spec_div = dict(ops=ops[s:e], at=i - s, impl=impl[s:e], other=sout[s:e], kind="spec")
    elif suite.get("spec"):
        res.errors.append("specd not built")
    return res


def _paste(ops_p, impl_p, out):
    """spec_on_impl: feed specd lines `op<TAB>obs`"""
    p = os.path.join(out, "opsobs.txt")
    with open(ops_p) as a, open(impl_p) as b, open(p, "w") as o:
        for x, y in zip(a, b):
            o.write(x.rstrip("\n") + "\t" + y)
    return p


# ---------------------------------------------------------------------------------------------
# shrinking (delta debugging over the op list of one case)
# ---------------------------------------------------------------------------------------------

def still_diverges(harness, suite, lines, scratch, kind):
    p = os.path.join(scratch, "shrink.txt")
    with open(p, "w") as f:
        f.write("\n".join(lines) + "\n")
    r = run_suite(harness, suite, 0, "quick", os.path.join(scratch, "shrinkrun"), replay=p)
    d = r.spec_div if kind == "spec" else r.model_div
    return d is not None


def shrink(harness, suite, div, scratch, budget=60):
    lines = list(div["ops"])
    head, body = lines[:1], lines[1:]
    kind = div["kind"]
    t0 = time.time()
    n = 2
    while len(body) >= 2 and time.time() - t0 < budget:
        chunk = max(1, len(body) // n)
        reduced = False
        for i in range(0, len(body), chunk):
            cand = body[:i] + body[i + chunk:]
            if cand and still_diverges(harness, suite, head + cand, scratch, kind):
                body = cand
                n = max(n - 1, 2)
                reduced = True
                break
            if time.time() - t0 > budget:
                break
        if not reduced:
            if chunk == 1:
                break
            n = min(n * 2, len(body))
    return head + body


# ---------------------------------------------------------------------------------------------
# known findings
# ---------------------------------------------------------------------------------------------

TIMING_SUITES = {"cluster", "halt", "lease", "proxy", "api", "backup", "goctx", "snapsched"}


def load_known(prop):
    p = os.path.join(VERIF, "known_findings.jsonl")
    out = []
    if os.path.exists(p):
        for line in open(p):
            line = line.strip()
            if not line or line.startswith("#"):
                continue
            try:
                e = json.loads(line)
            except Exception:
                continue
            if e.get("property") == prop:
                out.append(e)
    return out


def matches_known(known, suite_name, div):
    """an open finding matches a divergence iff its signature regexes match the case"""
    text = "\n".join(div["ops"])
    obs = "\n".join(div.get("impl") or [])
    for k in known:
        if k.get("status") != "open":
            continue
        sig = k.get("signature", {})
        if sig.get("suite") and sig["suite"] != suite_name:
            continue
        if sig.get("ops_regex") and not re.search(sig["ops_regex"], text, re.M):
            continue
        if sig.get("obs_regex") and not re.search(sig["obs_regex"], obs, re.M):
            continue
        at = div.get("at") or 0
        if sig.get("line_regex") and not (at < len(div["ops"]) and re.search(sig["line_regex"], div["ops"][at])):
            continue
        if sig.get("fail_regex") and not (at < len(div.get("other") or []) and re.search(sig["fail_regex"], div["other"][at])):
            continue
        return k
    return None


# ---------------------------------------------------------------------------------------------
# main
# ---------------------------------------------------------------------------------------------

def write_replay(prop, kind, payload):
    os.makedirs(REPLAYS, exist_ok=True)
    h = hashlib.sha1(json.dumps(payload, sort_keys=True).encode()).hexdigest()[:10]
    p = os.path.join(REPLAYS, "%s-%s-%s.txt" % (prop, kind, h))
    with open(p, "w") as f:
        f.write("# property: %s\n# kind: %s\n" % (prop, kind))
        for k, v in payload.items():
            if k in ("ops",):
                continue
            if isinstance(v, list):
                f.write("# %s:\n" % k)
                for x in v:
                    f.write("#   %s\n" % x)
            else:
                f.write("# %s: %s\n" % (k, v))
        for ln in payload.get("ops", []):
            f.write(ln + "\n")
    return p


def main(argv):
    ap = argparse.ArgumentParser()
    ap.add_argument("prop")
    ap.add_argument("--tier", default=os.environ.get("VERIF_TIER", "quick"))
    ap.add_argument("--replay")
    ap.add_argument("--keep", action="store_true")
    args = ap.parse_args(argv)
    prop = args.prop
    if prop not in PROPS:
        print("unknown property %s" % prop)
        return 2
    cfg = PROPS[prop]
    tier = args.tier if args.tier in ("quick", "thorough") else "quick"
    try:
        seed = int(os.environ.get("VERIF_SEED", "1"))
    except ValueError:
        seed = 1
    t0 = time.time()
    scratch = tempfile.mkdtemp(prefix="verif-%s-" % prop, dir=os.environ.get("VERIF_SCRATCH", "/tmp"))
    try:
        return _main(prop, cfg, tier, seed, args, scratch, t0)
    finally:
        if not args.keep:
            shutil.rmtree(scratch, ignore_errors=True)


def _main(prop, cfg, tier, seed, args, scratch, t0):
    broken = []       # (what, detail) — proof obligations / correspondences that no longer check
    notes = []
    wait_notes = []
    theorems, axioms = [], {}
    harness = None
    with BuildLock():
        ok, msg = regenerate()
        if not ok:
            broken.append(("translator", "translation of /repo failed (construct outside the supported subset): " + msg))
        targets = ["LiteFSVerif.Props.%s" % prop, "modeld", "specd"]
        ok, out = lake_build(targets)
        lake_ok = ok
        if not ok:
            errs = [l for l in out.split("\n") if "error" in l][:12]
            # which of the three targets failed?  rebuild each to know what we still have
            okp, outp = lake_build(["LiteFSVerif.Props.%s" % prop])
            if not okp:
                broken.append(("theorem", "lake build LiteFSVerif.Props.%s failed: %s" % (prop, " | ".join(errs))))
            okm, _ = lake_build(["modeld"])
            oks, _ = lake_build(["specd"])
            if not okm:
                broken.append(("model", "modeld no longer builds against the regenerated definitions"))
                try:
                    os.remove(os.path.join(LEAN, ".lake", "build", "bin", "modeld"))
                except OSError:
                    pass
            if not oks:
                broken.append(("spec", "specd does not build"))
            lake_ok = okp
        try:
            theorems = theorem_names(prop)
        except Exception as e:
            broken.append(("theorem", "cannot read Props/%s.lean: %s" % (prop, e)))
        if lake_ok and theorems:
            try:
                axioms = axiom_audit(prop, theorems)
            except Exception as e:
                broken.append(("audit", str(e)[:800]))
            for n in theorems:
                if n not in axioms:
                    broken.append(("audit", "no axiom report for %s" % n))
                else:
                    bad = [a for a in axioms[n] if a not in ALLOWED_AXIOMS]
                    if bad:
                        broken.append(("audit", "%s depends on non-standard axioms %s" % (n, bad)))
        hits = source_audit(os.path.join(LEAN, "LiteFSVerif"))
        if hits:
            broken.append(("audit", "forbidden constructs: " + "; ".join(hits[:5])))
        harness, hout = build_harness()
        if harness is None:
            broken.append(("harness", "harness does not build against /repo: " + hout[-1500:]))
    discharged = len([n for n in theorems if n in axioms and all(a in ALLOWED_AXIOMS for a in axioms[n])]) if lake_ok else 0

    known = load_known(prop)
    violations = []     # concrete failing inputs (dict)
    known_hits = {}
    tot = dict(evaluations=0, ops=0, distinct=0, traces=0)
    rules, samples, counters, exhaustive = [], [], {}, True
    suites = cfg.get("suites", [])

    def handle(suite, res, label):
        for e in res.errors:
            broken.append(("correspondence", "[%s] %s" % (skey(suite), e)))
        # every spec verdict is matched against the open known findings; the first one that no
        # finding lists is the violation
        fails = res.spec_fails or ([res.spec_div] if res.spec_div is not None else [])
        for div in fails:
            k = matches_known(known, suite["name"], div)
            if k is not None:
                known_hits[k["id"]] = k
                continue
            violations.append(dict(suite=suite["name"], skey=skey(suite), div=div, label=label))
            break
        if res.model_div is not None:
            k = matches_known(known, suite["name"], res.model_div)
            if k is not None:
                known_hits[k["id"]] = k
            else:
                broken.append(("correspondence", "[%s] model and implementation disagree" % skey(suite), res.model_div))
        for of in res.oracle_failures:
            case_ops = of.get("ops")
            if not case_ops and of.get("case") is not None and getattr(res, "ops_lines", None):
                # the operations of the case the harness oracle complained about
                starts = [i for i, l in enumerate(res.ops_lines) if l.startswith("case ")]
                idx = [i for i in starts if res.ops_lines[i].strip() == "case %s" % of["case"]]
                if idx:
                    s0 = idx[0]
                    e0 = min([i for i in starts if i > s0] + [len(res.ops_lines)])
                    case_ops = res.ops_lines[s0:e0]
            fake = dict(ops=case_ops or [of.get("what", "")], impl=[of.get("what", "")], kind="oracle", at=None, other=[],
                        replayable=bool(case_ops))
            k = matches_known(known, suite["name"], fake)
            if k is not None:
                known_hits[k["id"]] = k
            else:
                violations.append(dict(suite=suite["name"], skey=skey(suite), div=fake, label=label, oracle=of))

    if harness is not None:
        if args.replay:
            for suite in suites:
                hdr = open(args.replay).read(4000)
                m = re.search(r"^# suite: (\S+)", hdr, re.M)
                if m and m.group(1) not in (suite["name"], skey(suite)):
                    continue
                res = run_suite(harness, suite, seed, tier, scratch, replay=args.replay)
                tot["evaluations"] += res.cases
                handle(suite, res, "replay")
                for name, d in (("spec", res.spec_div), ("model", res.model_div)):
                    if d:
                        print("replay: %s diverges at line %d of case:" % (name, d["at"]))
                        for i, (o, a, b) in enumerate(zip(d["ops"], d["impl"], d["other"] + [""] * len(d["ops"]))):
                            mark = ">>" if i == d["at"] else "  "
                            print("%s %s\n     impl : %s\n     %-5s: %s" % (mark, o[:200], a[:300], name, b[:300]))
        else:
            for suite in suites:
                # corpus first
                cdir = os.path.join(CORPUS, prop)
                if os.path.isdir(cdir):
                    for fn in sorted(os.listdir(cdir)):
                        if not fn.endswith(".txt"):
                            continue
                        hdr = open(os.path.join(cdir, fn)).read(2000)
                        m = re.search(r"^# suite: (\S+)", hdr, re.M)
                        if m and m.group(1) not in (suite["name"], skey(suite)):
                            continue
                        res = run_suite(harness, suite, seed, tier, scratch, replay=os.path.join(cdir, fn))
                        tot["evaluations"] += res.cases
                        tot["traces"] += res.cases
                        counters["corpus.cases"] = counters.get("corpus.cases", 0) + res.cases
                        handle(suite, res, "corpus:" + fn)
                shards = 1 if tier == "quick" else suite.get("thorough_shards", 8)
                seeds = [seed + 1000003 * i for i in range(shards)]
                with ThreadPoolExecutor(max_workers=min(16, shards)) as ex:
                    results = list(ex.map(lambda s: run_suite(harness, suite, s, tier, scratch), seeds))
                for sd, res in zip(seeds, results):
                    st = res.stats or {}
                    tot["evaluations"] += st.get("cases", res.cases)
                    tot["ops"] += st.get("ops", 0)
                    tot["distinct"] += st.get("distinct_nontrivial", 0)
                    tot["traces"] += res.cases
                    if st.get("rule") and st["rule"] not in rules:
                        rules.append("[%s] %s" % (suite["name"], st["rule"]))
                    for s in (st.get("samples") or [])[:2]:
                        if len(samples) < 8:
                            samples.append("[%s] %s" % (suite["name"], s))
                    for k, v in (st.get("counters") or {}).items():
                        counters["%s.%s" % (suite["name"], k)] = counters.get("%s.%s" % (suite["name"], k), 0) + v
                    exhaustive = exhaustive and bool(st.get("exhaustive"))
                    for n in st.get("notes") or []:
                        # why a settle wait lapsed, with the stall the harness measured while waiting
                        if str(n).startswith("sync:") and len(wait_notes) < 6:
                            wait_notes.append("[%s, seed=%d] %s" % (skey(suite), sd, n))
                    handle(suite, res, "seed=%d" % sd)

    # ---- suites that run real goroutines, HTTP and timers: a failure must reproduce ------------------
    # These suites wait for asynchronous effects (replication, lease loops, time-outs) with bounded
    # real-time waits; under heavy parallel load a wait can lapse although the code is right.  A
    # failure found by a generated run is therefore replayed on its own (same operations, same
    # harness, nothing else running in this check): it counts only if it shows again.  Failures that
    # do not are listed in the evidence (`unconfirmed`), never silently dropped.
    unconfirmed = []
    if harness is not None and not args.replay:
        def reproduces(suite, ops, kind):
            p = os.path.join(scratch, "confirm-%d.txt" % len(unconfirmed))
            with open(p, "w") as f:
                f.write("\n".join(ops) + "\n")
            # it must show in two of up to three replays: one replay that fails again can be the same
            # stall of the machine that made the generated run fail (this happened once, C13, DESIGN 11.4)
            seen = 0
            for attempt in range(3):
                r = run_suite(harness, suite, 0, "quick", os.path.join(scratch, "confirm%d" % attempt), replay=p)
                for n in (r.stats or {}).get("notes") or []:
                    if str(n).startswith("sync:") and len(wait_notes) < 6:
                        wait_notes.append("[%s, confirming replay] %s" % (skey(suite), n))
                if kind == "model":
                    if r.model_div is not None or r.errors:
                        seen += 1
                elif r.spec_fails or r.spec_div is not None or r.oracle_failures:
                    seen += 1
                if seen >= 2:
                    return True
                if attempt == 1 and seen == 0:
                    return False
            return False
        kept = []
        for v in violations:
            suite = next(s for s in suites if skey(s) == v.get("skey", v["suite"]))
            if suite["name"] in TIMING_SUITES and str(v.get("label", "")).startswith("seed=") and v["div"].get("ops") and v["div"].get("replayable", True):
                if reproduces(suite, v["div"]["ops"], v["div"].get("kind")):
                    kept.append(v)
                else:
                    at = v["div"].get("at")
                    why = (v["div"].get("other") or [""])[at] if at is not None and at < len(v["div"].get("other") or []) else (v.get("oracle") or {}).get("what", "")
                    unconfirmed.append("[%s] %s: %s" % (suite["name"], v["label"], str(why)[:300]))
            else:
                kept.append(v)
        violations[:] = kept
        keptb = []
        for b in broken:
            if len(b) > 2 and b[0] == "correspondence":
                sname = b[1].split("]")[0].strip("[")
                suite = next((s for s in suites if skey(s) == sname), None)
                if suite is not None and suite["name"] in TIMING_SUITES and b[2].get("ops"):
                    if reproduces(suite, b[2]["ops"], "model"):
                        keptb.append(b)
                    else:
                        unconfirmed.append("[%s] model/implementation difference not reproduced on replay (line %s of its case)" % (sname, b[2].get("at")))
                    continue
            keptb.append(b)
        broken[:] = keptb
        for u in unconfirmed:
            notes.append("unconfirmed (did not show again in two of up to three replays of the case, timing under load): " + u)
    for n in wait_notes:
        notes.append("settle wait lapsed " + n)

    # ---- tie broken but no concrete failing input yet: widen the search (spec on implementation only) ----
    if broken and not violations and harness is not None and not args.replay:
        for suite in suites:
            if not suite.get("spec"):
                continue
            seeds = [seed + 7919 * (i + 1) for i in range(6)]
            with ThreadPoolExecutor(max_workers=6) as ex:
                results = list(ex.map(lambda s: run_suite(harness, dict(suite, model=None), s, "quick", scratch), seeds))
            for sd, res in zip(seeds, results):
                for d in (res.spec_fails or ([res.spec_div] if res.spec_div is not None else [])):
                    if matches_known(known, suite["name"], d) is None:
                        violations.append(dict(suite=suite["name"], skey=skey(suite), div=d, label="search seed=%d" % sd))
                        break
                for of in res.oracle_failures:
                    violations.append(dict(suite=suite["name"], skey=skey(suite), div=dict(ops=[of.get("what", "")], impl=[], other=[], at=0, kind="oracle"), label="search", oracle=of))
            if violations:
                break

    # ---- report --------------------------------------------------------------------------------
    rc = 0
    printed = []
    for k in known_hits.values():
        print("KNOWN-FINDING: property=%s %s" % (prop, k.get("what", k["id"])))
    # open findings that have a trigger in the corpus must have fired; otherwise say so (not an alarm)
    for k in known:
        if k.get("status") == "open" and k["id"] not in known_hits and not args.replay:
            notes.append("open finding %s was not reproduced on this run" % k["id"])
    if violations:
        rc = 1
        v = violations[0]
        div = v["div"]
        suite = next(s for s in suites if skey(s) == v.get("skey", v["suite"]))
        ops = div["ops"]
        if suite.get("shrink") == "prefix" and div.get("at") is not None:
            ops = ops[:div["at"] + 1]   # histories are only meaningful as prefixes: cut after the failing line
        elif div["kind"] in ("spec",) and harness is not None and len(ops) > 3:
            try:
                ops = shrink(harness, suite, div, scratch)
            except Exception as e:
                notes.append("shrink failed: %s" % e)
        at = div.get("at") or 0
        lo = max(0, at - 45)
        payload = dict(suite=v.get("skey", v["suite"]), found_by=v["label"], failing_predicate=cfg.get("predicate", "Lean Spec on implementation output"),
                       at_line=div.get("at"), window_from_line=lo,
                       impl=div.get("impl", [])[lo:at + 5], expected=div.get("other", [])[lo:at + 5],
                       broken_obligations=[b[1][:300] for b in broken][:6], ops=ops)
        if v.get("oracle"):
            payload["oracle"] = json.dumps(v["oracle"])[:2000]
        p = write_replay(prop, "violation", payload)
        print("VIOLATION property=%s replay=%s" % (prop, p))
    elif broken:
        rc = 1
        payload = dict(broken=[("%s: %s" % (b[0], b[1]))[:1500] for b in broken],
                       theorems=theorems, note="no input was found on which the property's spec predicates fail; the "
                       "property is no longer shown to hold because the obligations above no longer check")
        for b in broken:
            if len(b) > 2:
                d = b[2]
                payload["suite"] = b[1].split("]")[0].strip("[")
                payload["at_line"] = d["at"]
                lo = max(0, (d["at"] or 0) - 45)
                payload["window_from_line"] = lo
                payload["impl"] = d["impl"][lo:(d["at"] or 0) + 5]
                payload["model"] = d["other"][lo:(d["at"] or 0) + 5]
                payload["ops"] = d["ops"]
                break
        p = write_replay(prop, "broken", payload)
        print("VIOLATION property=%s replay=%s no-failing-input-found" % (prop, p))

    wall = time.time() - t0
    if not args.replay:
        ev = dict(
            property_id=prop, tier=tier, seed=seed, level="proof",
            coverage=dict(
                obligations=len(theorems), discharged=discharged,
                checker_cmd="cd /verif/lean && lake build LiteFSVerif.Props.%s && lake env lean .audit/%s.lean  (#print axioms of every theorem)" % (prop, prop),
                trusted_base=COMMON_TRUSTED + cfg.get("trusted", []),
                theorems=[dict(name=n, axioms=axioms.get(n)) for n in theorems],
                evaluations=tot["evaluations"], distinct_nontrivial=tot["distinct"],
                rule=" || ".join(rules) if rules else "no correspondence suite ran",
                samples=samples if samples else ["(no sample)"],
                traces_validated_against_impl=tot["traces"],
                ops=tot["ops"], counters=counters, exhaustive=bool(exhaustive and suites and cfg.get("exhaustive_claim", False)),
                explanation=cfg.get("explanation", ""),
                known_findings_printed=sorted(known_hits.keys()),
                broken_obligations=[("%s: %s" % (b[0], b[1]))[:400] for b in broken],
                notes=notes,
            ),
            assumptions=cfg.get("assumptions", []),
            wall_s=round(wall, 2), violations=len(violations) + (1 if (broken and not violations) else 0),
        )
        os.makedirs(EVIDENCE, exist_ok=True)
        tmp = os.path.join(EVIDENCE, ".%s.json.tmp" % prop)
        with open(tmp, "w") as f:
            json.dump(ev, f, indent=1)
        os.replace(tmp, os.path.join(EVIDENCE, "%s.json" % prop))
    log("check %s tier=%s seed=%d: %s in %.1fs (theorems %d/%d, cases %d, nontrivial %d)" % (
        prop, tier, seed, "OK" if rc == 0 else "VIOLATION", wall, discharged, len(theorems), tot["evaluations"], tot["distinct"]))
    return rc
