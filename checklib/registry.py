"""Per-property configuration of the check procedure."""

COMMON_TRUSTED = [
    "Lean 4.33.0 kernel (theorems checked by `lake build`; axioms of every property theorem audited with #print axioms to lie within propext, Classical.choice, Quot.sound)",
    "the translator /verif/translator (go/ast -> Lean) and the Go correspondence harness /verif/harness, its generators and canonicalisation",
    "the Lean driver's line parser/printer (Driver/*.lean, unverified glue)",
]

PROPS = {
    "C12": dict(
        suites=[dict(name="rwmutex", model="rwmutex", spec="rwmutex-spec", thorough_shards=8)],
        exhaustive_claim=True,
        predicate="Posix.specStep (Spec/Posix.lean): POSIX byte-range lock rules between distinct owners",
        explanation="Theorems C12_* are stated over Gen/RWMutex.lean, regenerated from /repo/rwmutex.go on this run; the correspondence suite runs the real RWMutex (complete BFS of the state space for 1..4 guards, random sequences for 1..6) against both the generated model and the POSIX spec.",
        trusted=["go/ast translation of tryLock/tryRLock/unlock/CanLock/CanRLock/state (checked against the real type by the rwmutex suite)",
                 "the `default: panic` arms of the switches are treated as unreachable (the guard state type has exactly three values)",
                 "sync.Mutex makes each guard method atomic (the model is sequentially consistent at method granularity)"],
        assumptions=["blocking Lock/RLock are modelled as 'try at every tick'; the 10 microsecond ticker and goroutine scheduling are runtime behaviour (C12_blocking_partial)"],
    ),
    "C18": dict(
        suites=[dict(name="codec", model="codec", spec="codec-spec", spec_on_impl=True, thorough_shards=8)],
        predicate="round trip / prefix => error / no crash, hang or disproportionate allocation (Driver/CodecSpecD.lean over the encoders of Model/Frames.lean, Model/Chunk.lean)",
        explanation="Theorems C18_* are about the hand-written codec models (Model/Frames.lean, Model/Chunk.lean); type codes and the chunk limit are regenerated from the source (C18_facts). The codec suite runs the real ReadStreamFrame/WriteStreamFrame, ReadPosMapFrom/WritePosMapTo and chunk.Reader/Writer against the model on systematic and random inputs, with three read-splitting modes and allocation measured per decode.",
        trusted=["hand-written model of client.go / http/http.go / internal/chunk (tied by the codec correspondence suite, not regenerated)",
                 "encoding/binary, io.ReadFull, io.CopyN, bytes.Buffer (Go standard library): a reader's split of the bytes is invisible to the decoders because they read only through io.ReadFull/binary.Read",
                 "allocation is observed as runtime.MemStats.TotalAlloc around each decode (bound 256 KiB + 16 x input length); hostile length prefixes are decoded in a child process under ulimit -v"],
        assumptions=["names are byte strings shorter than 2^32 (the writer casts len to uint32)"],
    ),
}
