"""Per-property configuration of the check procedure."""

COMMON_TRUSTED = [
    "Lean 4.33.0 kernel (theorems checked by `lake build`; axioms of every property theorem audited with #print axioms to lie within propext, Classical.choice, Quot.sound)",
    "the translator /verif/translator (go/ast -> Lean) and the Go correspondence harness /verif/harness, its generators and canonicalisation",
    "the Lean driver's line parser/printer (Driver/*.lean, unverified glue)",
]

PROPS = {
    "C12": dict(
        suites=[dict(name="rwmutex", model="rwmutex", spec="rwmutex-spec", thorough_shards=8)],
        exhaustive_claim=True,
        predicate="Posix.specStep (Spec/Posix.lean): POSIX byte-range lock rules between distinct owners",
        explanation="Theorems C12_* are stated over Gen/RWMutex.lean, regenerated from /repo/rwmutex.go on this run; the correspondence suite runs the real RWMutex (complete BFS of the state space for 1..4 guards, random sequences for 1..6) against both the generated model and the POSIX spec.",
        trusted=["go/ast translation of tryLock/tryRLock/unlock/CanLock/CanRLock/state (checked against the real type by the rwmutex suite)",
                 "the `default: panic` arms of the switches are treated as unreachable (the guard state type has exactly three values)",
                 "sync.Mutex makes each guard method atomic (the model is sequentially consistent at method granularity)"],
        assumptions=["blocking Lock/RLock are modelled as 'try at every tick'; the 10 microsecond ticker and goroutine scheduling are runtime behaviour (C12_blocking_partial)"],
    ),
    "C18": dict(
        suites=[dict(name="codec", model="codec", spec="codec-spec", spec_on_impl=True, thorough_shards=8)],
        predicate="round trip / prefix => error / no crash, hang or disproportionate allocation (Driver/CodecSpecD.lean over the encoders of Model/Frames.lean, Model/Chunk.lean)",
        explanation="Theorems C18_* are about the hand-written codec models (Model/Frames.lean, Model/Chunk.lean); type codes and the chunk limit are regenerated from the source (C18_facts). The codec suite runs the real ReadStreamFrame/WriteStreamFrame, ReadPosMapFrom/WritePosMapTo and chunk.Reader/Writer against the model on systematic and random inputs, with three read-splitting modes and allocation measured per decode.",
        trusted=["hand-written model of client.go / http/http.go / internal/chunk (tied by the codec correspondence suite, not regenerated)",
                 "encoding/binary, io.ReadFull, io.CopyN, bytes.Buffer (Go standard library): a reader's split of the bytes is invisible to the decoders because they read only through io.ReadFull/binary.Read",
                 "allocation is observed as runtime.MemStats.TotalAlloc around each decode (bound 256 KiB + 16 x input length); hostile length prefixes are decoded in a child process under ulimit -v"],
        assumptions=["names are byte strings shorter than 2^32 (the writer casts len to uint32)"],
    ),
    "C02": dict(
        suites=[dict(name="engine", model="engine", spec="engine-spec", spec_on_impl=True, shrink="prefix", thorough_shards=16, arg="journal")],
        predicate="capture exactness (Spec.apply prev newestFile = image SQLite sees), pre/post checksums, page constraints, position advances by at most one (Driver/EngineSpecD.lean over Spec/Image.lean)",
        explanation="C02_* theorems: capture exactness for every previous/new image and covering dirty set (Spec/Image.lean), plus frame properties of the engine model's CommitJournal/invalidateJournal. The byte-level engine model (Model/Engine.lean) is compared with the real DB on pager-simulator histories; the spec predicates are evaluated on the implementation's own LTX files against the simulator's reference image.",
        trusted=["hand-written engine model of db.go (tied by the engine correspondence suite)", "the pager simulator as a description of SQLite's rollback-journal protocol (harness/pager.go)",
                 "ltx.Encoder/Decoder (file-level encoding, LZ4, file checksum) used as a library and as the integrity oracle"],
        assumptions=["SQLite writes every page it changed through the database file before finalising the journal and truncates only after finalisation (pager simulator)", "CRC64 page hash treated as collision-free when images are compared by per-page checksum"],
    ),
    "C03": dict(
        suites=[dict(name="engine", model="engine", spec="engine-spec", spec_on_impl=True, shrink="prefix", thorough_shards=16, arg="wal")],
        predicate="capture exactness for WAL commits (last frame per page, size from the commit frame), position advances iff a complete transaction was appended (Driver/EngineSpecD.lean)",
        explanation="C03_* theorems: capture exactness at spec level; engine model: WAL writes need the exclusive WRITE lock, no write below the capture offset, no transaction => no change. Correspondence and spec predicates as for C02, on WAL-heavy histories (repeated pages, split frame writes, rolled-back frames, restarts, SQLite and LiteFS checkpoints, shrink across checksum blocks).",
        trusted=["hand-written engine model of db.go (tied by the engine correspondence suite)", "the pager simulator as a description of SQLite's WAL protocol", "ltx encoder/decoder"],
        assumptions=["WAL frames of a transaction are appended contiguously from the capture offset under the WRITE lock (pager simulator)"],
    ),
    "C04": dict(
        suites=[dict(name="engine", model="engine", spec="engine-spec", spec_on_impl=True, shrink="prefix", thorough_shards=16, arg="mixed")],
        predicate="position checksum = Spec.checksum(reference image) = from-scratch checksum over the raw database+WAL files (Driver/EngineSpecD.lean; harness raw scan)",
        explanation="C04_* theorems about the checksum-cache model (Model/Checksum.lean: set/get, block invalidation, empty database). At every quiescent point of every history the implementation's reported checksum is compared with (a) the Lean spec checksum of the pager simulator's reference image and (b) a from-scratch scan of the raw files.",
        trusted=["hand-written model of the checksum cache (Model/Checksum.lean) tied by the engine suite", "hash/crc64 (Go) and the Lean CRC64 agree (checked on every page of every run)"],
        assumptions=["databases containing the lock page (>= 1 GiB) are not exercised by the byte-level suite; the lock page is handled in the model and theorems only"],
    ),
    "C09": dict(
        suites=[dict(name="engine", model="engine", spec="engine-spec", spec_on_impl=True, shrink="prefix", thorough_shards=16, arg="mixed")],
        predicate="Spec.chainOK on the decoded listing, newest file = position, ltx.Decoder.Verify on every file, temporary files ignored, retention keeps the newest (Driver/EngineSpecD.lean)",
        explanation="C09_* theorems: chain preserved by append/snapshot/retention at spec level; engine model: WriteLTXFileAt accepts only an exact extension (else unchanged), a snapshot replaces the log, Drop appends one tombstone. The listing of the real log directory is decoded and checked after every step, including retention sweeps with stray temporary files.",
        trusted=["hand-written engine model (engine suite)", "ltx.Decoder.Verify as the file-integrity oracle", "file modification times are set by the harness (os.Chtimes) to simulate age"],
        assumptions=["no backup client configured in this suite (HWM rule covered under C14)"],
    ),
    "C07": dict(
        suites=[dict(name="replica", model="replica", spec="replica-spec", spec_on_impl=True, shrink="prefix", thorough_shards=16)],
        predicate="on a node without write authority: image and position equal the virtual primary's at every step, position changes only when a transaction file was applied, page/journal/WAL writes and journal creation, drop and import answer read-only (Driver/EngineSpecD.lean)",
        explanation="C07_* theorems on the engine model: every mutating entry point refuses without write authority and leaves the state untouched; ungated operations cannot touch position or log; a WAL commit step that starts after authority was lost publishes nothing; the refusal at the head of each Go entry point is a regenerated fact (C07_all_gated). The replica suite drives a real non-primary Store through the real stream path and attacks it with every operation kind.",
        trusted=["hand-written engine model (replica/engine suites)", "go/ast fact extractor for the gate table", "the stream path is entered through the verif hook VerifProcessLTXStreamFrame (same function the stream reader calls)"],
        assumptions=["demotion during an in-flight rollback-journal commit: the gate is at the entry of CommitJournal only (stated in DESIGN.md); goroutine-level interleavings inside one call are not modelled"],
    ),
    "C15": dict(
        suites=[dict(name="engine", model="engine", spec="engine-spec", spec_on_impl=True, shrink="prefix", thorough_shards=16, arg="drop"),
                dict(name="replica", model="replica", spec="replica-spec", spec_on_impl=True, shrink="prefix", thorough_shards=8)],
        predicate="after a drop: position = previous TXID + 1 with the empty checksum, no database/journal/WAL file, tombstone in the chain; re-creation continues the TXID sequence; replicas reach the same state through the stream (Driver/EngineSpecD.lean)",
        explanation="C15_* theorems on the engine model (drop state, tombstone file, re-creation continues the log) and spec level (tombstone empties any image; empty checksum). Histories with drop and re-creation on a real primary, and tombstones / re-creations streamed to a real replica.",
        trusted=["hand-written engine model (engine and replica suites)", "page size per name is kept fixed in this suite (size change belongs to C16)"],
        assumptions=["crash points inside the drop are covered under C05", "directory listings (RootHandle.ReadDirAll) are not driven: the FUSE layer needs a mount"],
    ),
    "C05": dict(
        suites=[dict(name="crash", model=None, spec="crash-spec", spec_on_impl=True, shrink="prefix", thorough_shards=8),
                dict(name="engine", model="engine", spec="engine-spec", spec_on_impl=True, shrink="prefix", thorough_shards=8, arg="mixed")],
        exhaustive_claim=True,
        predicate="for every crash point: restart succeeds; (position, image) is that before or that after the interrupted operation and after once the commit call had returned; position = newest LTX file; reported checksum = from-scratch checksum; no hot journal, no un-checkpointed WAL content; the write lock can be taken (Driver/EngineSpecD.lean `crashpoint`)",
        explanation="C05_* theorems: journal rollback restores the pre-image from any partially written image (journal-protocol hypothesis explicit), re-applying the newest file is idempotent, hence recovery yields the image before or after the interrupted commit (C05_atomic); maxLTXFile picks the highest TXID. The crash suite enumerates every OS-layer call, page write, file truncate and operation boundary inside each operation shape on the real code (copy of the data directory per point, fresh Store.Open on each copy). Clean restarts inside histories are compared with the byte-level recovery model (Model/Recovery.lean).",
        trusted=["copying the data directory between two calls is what a dying process leaves behind (completed syscalls persist; torn single writes and power loss are out of scope)",
                 "OS-layer calls are intercepted by wrapping Store.OS; page writes / truncates by the verif hook VerifCrashPoint",
                 "hand-written recovery model (Model/Recovery.lean) tied by the engine suite's restart steps"],
        assumptions=["journal protocol: a page is journalled before it is overwritten (pager simulator)", "writes through already-open file handles (journal, WAL, LTX temp file contents) are not separate crash points"],
    ),
}
