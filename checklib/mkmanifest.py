#!/usr/bin/env python3
"""Regenerates MANIFEST.json from checklib/registry.py + manifest_meta.py (keeps it valid and in sync)."""
import json, os, sys
sys.path.insert(0, os.path.dirname(os.path.abspath(__file__)))
from registry import PROPS
from manifest_meta import META, PENDING_REASON, HOOK_COMMITS

VERIF = os.path.dirname(os.path.dirname(os.path.abspath(__file__)))
ids = [json.loads(l)["id"] for l in open(os.path.join(VERIF, "properties.jsonl"))]
checks, na = [], []
for pid in ids:
    if pid in PROPS and pid in META:
        m = META[pid]
        checks.append(dict(
            property_id=pid,
            quick_cmd="./check %s --tier quick" % pid,
            thorough_cmd="./check %s --tier thorough" % pid,
            evidence_file="/verif/evidence/%s.json" % pid,
            replay_cmd_template="./check %s --replay {path}" % pid,
            engine="lean4-proof+correspondence",
            level_claimed=dict(category="proof", text=m["text"], design_ref=m.get("design_ref", "DESIGN.md section 6 (%s)" % pid)),
            level_note=m["note"],
            technique=m.get("technique", "Lean 4 theorems over a model tied to the code by regeneration (go/ast translator) and differential correspondence"),
        ))
    else:
        na.append(dict(property_id=pid, reason=PENDING_REASON.get(pid, "check not built yet; see DESIGN.md section 6 for the planned theorem and tie")))
man = dict(
    version=1,
    setup_cmd="./setup.sh",
    hooks=dict(guard="verif", enable="go build -tags verif (the harness in /verif/harness is built with this tag against /repo's working tree)",
               baseline_off_cmd="cd /repo && GOFLAGS=-mod=mod go test -json -vet=off -count=1 -timeout 25m ./...",
               source_commits=HOOK_COMMITS, add_only=True),
    engines=[dict(name="lean4-proof+correspondence", path="/verif/lean, /verif/harness, /verif/translator, /verif/check",
                  serves_properties=[c["property_id"] for c in checks],
                  kind_free_text="Lean 4 kernel-checked theorems about an executable model; the model is regenerated from the Go source (translator) and/or compared with the real code on generated operation sequences (Go harness vs compiled Lean driver)")],
    checks=checks,
    notes="See DESIGN.md. known_findings.jsonl lists genuine defects (open / fixed).",
    not_applicable=na,
)
json.dump(man, open(os.path.join(VERIF, "MANIFEST.json"), "w"), indent=1)
print("MANIFEST.json: %d checks, %d not claimed" % (len(checks), len(na)))
