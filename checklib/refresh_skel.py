#!/usr/bin/env python3
"""refresh_skel.py NAME...  — after a REVIEWED change of /repo (a fix commit), copy the regenerated
control skeleton of the named functions (e.g. DB_initDatabaseFile) from translator output into
lean/LiteFSVerif/Model/ExpectedSkel.lean.  Never run by a check."""
import os, re, subprocess, sys, tempfile
V = os.path.dirname(os.path.dirname(os.path.abspath(__file__)))
env = dict(os.environ, GOFLAGS="-mod=mod", GOPROXY="off", GOSUMDB="off", GOTOOLCHAIN="local")
out = tempfile.mkdtemp(prefix="skel-")
tr = os.path.join(out, "translator")
subprocess.check_call(["go", "build", "-o", tr, "."], cwd=os.path.join(V, "translator"), env=env)
subprocess.check_call([tr, "-repo", "/repo", "-out", out], stdout=subprocess.DEVNULL)
gen = open(os.path.join(out, "Skel.lean")).read()
p = os.path.join(V, "lean/LiteFSVerif/Model/ExpectedSkel.lean")
exp = open(p).read()
def block(txt, name):
    return re.search(r'/-- control skeleton of [^\n]*\ndef ' + re.escape(name) + r' : List \(String × String\) := \[\n.*?\n\]\n', txt, re.S)
for name in sys.argv[1:]:
    g, e = block(gen, name), block(exp, name)
    if g and not e:  # a function newly added to translator/skeleton.go: append its block
        end = exp.rindex("end LiteFSVerif.Expected.Skel")
        exp = exp[:end] + g.group(0) + "\n" + exp[end:]
        print("added:", name); continue
    if not g or not e:
        print("not found:", name); sys.exit(1)
    if g.group(0) == e.group(0):
        print("unchanged:", name); continue
    exp = exp[:e.start()] + g.group(0) + exp[e.end():]
    print("refreshed:", name)
open(p, "w").write(exp)
