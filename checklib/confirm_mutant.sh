#!/bin/bash
# confirm_mutant.sh <mutation-dir> <test-run-regex> [pkgdir]
# Confirms in a scratch worktree that: patch applies, builds, baseline tests still pass,
# the demonstration fails with the patch and passes without it.
set -u
export GOFLAGS=-mod=mod GOPROXY=off GOSUMDB=off GOTOOLCHAIN=local
M=$1; RUN=$2; PKG=${3:-.}
W=$(mktemp -d /tmp/mutconfirm-XXXX)
git -C /repo worktree add -q --detach "$W/wt" HEAD || exit 2
cd "$W/wt"
mkdir -p "$PKG"; for f in "$M"/*_test.go; do [ -e "$f" ] && cp "$f" "$PKG/"; done
echo "== without patch: demo must PASS"
go test -vet=off -count=1 -run "$RUN" "./$PKG" 2>&1 | tail -3
echo "== apply patch"
git apply "$M/patch.diff" && go build ./... && echo build-ok
echo "== with patch: demo must FAIL"
go test -vet=off -count=1 -run "$RUN" "./$PKG" 2>&1 | tail -4
echo "== with patch: baseline tests (demo removed)"
for f in "$M"/*_test.go; do rm -f "$PKG/$(basename $f)"; done
go test -json -vet=off -count=1 -timeout 25m ./... 2>/dev/null > "$W/base.json"
python3 - "$W/base.json" <<'PY'
import json,sys
base=json.load(open('/root/.vp/BASELINE.json'))['stable_pass']
res={}
for l in open(sys.argv[1]):
    try: e=json.loads(l)
    except Exception: continue
    if e.get('Test') and e.get('Action') in('pass','fail','skip'):
        res[e['Package']+'::'+e['Test']]=e['Action']
missing=[t for t in base if res.get(t)!='pass']
print('baseline pass',sum(1 for v in res.values() if v=='pass'),'missing',missing)
PY
cd /; git -C /repo worktree remove --force "$W/wt"; rm -rf "$W"
