HOOK_COMMITS = ["3b74526"]
PENDING_REASON = {}
META = {
    "C12": dict(
        text="Machine-checked proof (Lean 4, unbounded owners and op sequences) that the five guard methods of rwmutex.go, regenerated from the source on every run, refine POSIX reader/writer lock rules, preserve the holder/counter invariant, never hit an assert, leave state unchanged on failure and answer queries consistently; plus exhaustive BFS of the real type (1..4 owners) against model and spec. This is the right level because the property quantifies over all op sequences and the code is a small pure state machine.",
        note="Trusted: Lean kernel; the go/ast translator (cross-checked by the BFS correspondence on the real type); sync.Mutex atomicity of each method; blocking variants only as an abstract tick loop (C12_blocking_partial).",
        technique="Lean 4 invariant + refinement proof over definitions regenerated from rwmutex.go; exhaustive differential check of the real type",
    ),
    "C18": dict(
        text="Machine-checked proofs (Lean 4, all frame values, all byte strings, unbounded lengths) of round trip, every-proper-prefix-is-an-error (ErrUnexpectedEOF except the empty prefix of a frame), decode soundness on arbitrary bytes (a successful decode consumed exactly the encoding of the value returned) and writer chunk-size bounds, for models of the stream-frame, position-map and chunked-body codecs; the models are compared with the real codecs on generated inputs (all types, lengths around 65535, every prefix, garbage, hostile length prefixes, three read-split modes) and allocation is measured.",
        note="Trusted: Lean kernel; hand-written codec model (correspondence-checked); Go's io.ReadFull/binary.Read/io.CopyN; allocation measured via runtime.MemStats; split-independence is by io.ReadFull (exercised with 3 split modes, not proved).",
        technique="Lean 4 parser-combinator model with generic encoding/prefix lemmas; differential check against the real codecs",
    ),
    "C02": dict(
        text="Lean 4 proofs of capture exactness (apply prev (capture new dirty) = new for all images and covering dirty sets), page bounds and rollback identity at the image level, and of frame properties of the engine model's CommitJournal (refusal without write authority, an invalid journal header publishes nothing); the byte-level Lean engine model is run against the real DB on pager-simulator histories (3 journal modes, spills, rollbacks, grow/shrink across checksum blocks, drop/recreate) and the Lean spec predicates are evaluated on the implementation's own LTX files.",
        note="Trusted: Lean kernel; hand-written engine model tied by differential correspondence; pager simulator as the description of SQLite; ltx library; CRC64 collision-freedom when comparing images by page checksum. Real SQLite is not run (no FUSE mount in the sandbox).",
        technique="Lean 4 theorems (image-level capture law + engine-model frame lemmas) + differential check of a byte-level Lean model of db.go against the real DB",
    ),
    "C03": dict(
        text="Lean 4 proofs of WAL capture exactness at the image level and of the engine model's WAL write guards (exclusive WRITE lock required, no write below the capture offset, no complete transaction => nothing captured); byte-level model vs real DB on WAL histories (repeated pages, split writes, rolled-back frames overwritten, restarts with new salts, SQLite/LiteFS checkpoints, shrink across a 256-page block, both checksum byte orders).",
        note="Trusted: as C02. The WAL scan (buildTxFrameOffsets) is modelled byte for byte and compared, its 'longest valid prefix' characterisation is proved under C17.",
        technique="Lean 4 theorems + differential check of the byte-level engine model",
    ),
    "C04": dict(
        text="Lean 4 proofs about the checksum-cache model (page slot update, other slots untouched, block invalidation, empty database) and a three-way comparison on every quiescent point of generated histories: implementation's reported checksum = Lean spec checksum of the reference image = from-scratch checksum of the raw files.",
        note="Trusted: Lean kernel; model of chksums.pages/blocks/wal.chksums tied by correspondence; the full functional-correctness theorem of `checksum` under the cache invariant is stated in DESIGN.md and proved as far as Props/C04.lean goes.",
        technique="Lean 4 lemmas on the cache model + differential and from-scratch oracle on the real DB",
    ),
    "C09": dict(
        text="Lean 4 proofs that the chain predicate is preserved by append of an extending file, snapshot replacement and prefix removal (retention keeps the newest), and that the engine model's WriteLTXFileAt/Drop only ever add an exact extension or a replacing snapshot; the real log directory is decoded, chain-checked (Lean spec) and integrity-checked (ltx.Decoder.Verify) after every step, with stray temporary files and retention sweeps.",
        note="Trusted: Lean kernel; engine model tied by correspondence; ltx.Decoder.Verify; harness-set mtimes.",
        technique="Lean 4 theorems on the chain spec and engine model + differential check with log-directory oracle",
    ),
    "C07": dict(
        text="Lean 4 proofs on the engine model that without write authority every mutating operation (database, journal and WAL writes, journal finalisation, drop, import) returns the read-only error with the state unchanged, that the ungated operations cannot move the position or the log, and that a WAL commit step starting after authority was lost publishes nothing; plus a regenerated fact table proving the refusal is present in each Go entry point. A real non-primary Store is driven through the real stream path and attacked with every operation kind at every pager-protocol state.",
        note="Trusted: Lean kernel; engine model tied by correspondence; fact extractor; verif hook exposing processLTXStreamFrame. Mid-call demotion windows (between a gate check and the rename) are stated, not exhibited.",
        technique="Lean 4 frame/refusal theorems over the engine model + regenerated gate table + differential attack suite on a real replica",
    ),
    "C13": dict(
        text="Lean 4 proofs that while the halt lock (LiteFS's internal write-lock set over the generated RWMutex code) is held no local owner holds or obtains any lock of the plan, that the forwarding endpoint proceeds only for the id of the lock currently granted (validation order regenerated from the source), that a holder whose lock is no longer honoured publishes nothing in either journal mode, that applying a forwarded file leaves the primary at the holder's new (TXID, checksum), and that acquire is idempotent per id; a byte-level cluster model with halt locks and forwarding is compared with real 2-3 node clusters driving real /halt, /tx and release between stores, with writers on the primary, repeated acquire/release, publishing without or after a lock, expiry and primary change during a halt; Lean spec predicates judge the implementation's observations.",
        note="Trusted: Lean kernel; cluster model tied by correspondence; scripted lease service. Three genuine defects were found and repaired in /repo (/tx holder check 1c94e69, halt grants on non-primaries 7ead51d, self-deadlock of the stream path on a stale remote halt lock ce31c5d). Partial: races inside one /tx request and lost responses are not modelled.",
        technique="Lean 4 theorems (lock-table exclusion, endpoint validation, engine commit under a stale lock, apply position) + differential halt suite on real clusters",
    ),
    "C15": dict(
        text="Lean 4 proofs that Drop advances the position by exactly one with the empty checksum and removes database/journal/WAL, that its tombstone extends the chain, that a re-created database continues the TXID sequence with the empty pre-checksum, and that applying a tombstone to any image yields the empty image; histories with drop/re-creation on a real primary and tombstones streamed to a real replica are compared with the model and checked against the spec.",
        note="Trusted: Lean kernel; engine model tied by correspondence; directory listing through FUSE not exercised (no mount).",
        technique="Lean 4 theorems over the engine model + differential histories with drop/recreate on primary and replica",
    ),
    "C05": dict(
        text="Lean 4 proofs (all images, all partial-write subsets) that journal rollback restores the pre-transaction image, that re-applying the newest file is idempotent, and hence that recovery yields exactly the image before or after the interrupted commit (C05_atomic), plus maxLTXFile correctness; exhaustive enumeration, on the real code, of every crash point (each OS-layer call, page write, file truncate, operation boundary) inside each transaction shape with a fresh Store.Open on a copy of the data directory per point, judged by the Lean spec predicates.",
        note="Trusted: Lean kernel; process-death model = directory copy between calls (no torn writes / power loss); Store.OS wrapper and verif crash-point hook; recovery model tied by clean-restart correspondence.",
        technique="Lean 4 theorems on rollback/re-apply at image level + exhaustive crash-point enumeration on the real code judged by Lean spec predicates",
    ),
    "C16": dict(
        text="Lean 4 proofs that an import transaction applied to any previous image yields exactly the imported image, that the engine model refuses unusable imports (non-primary, not a database, other page size) before touching anything, and that export without WAL overlay returns the file's pages; differential suite importing valid, truncated and garbage images into absent / empty / dropped / populated (journal, WAL with pending frames) databases on a real primary with export, restart-after-refusal and follow-up transactions.",
        note="Trusted: Lean kernel; engine model tied by the import suite. Four genuine defects found by this suite were repaired in /repo (see known_findings.jsonl).",
        technique="Lean 4 theorems (image-level replace law, refusal frame lemmas) + differential import/export suite on the real DB",
    ),
    "C01": dict(
        text="Lean 4 proofs over an abstract replication protocol model with unboundedly many nodes and steps (commits on any node, delivery of any log file or snapshot between any nodes in any order, retention, restarts): by induction over the step list every node sits on the committed history, so a node at (TXID, checksum) holds exactly the image committed there (collision-freedom of the checksum as an explicit hypothesis); healthy histories never fail post-apply verification; a stream session from any history position reaches the primary's position within txid-distance + 2 iterations. The stream decision function is shared with a byte-level cluster model over engine-model nodes that is compared with real 2-3 node clusters (real stores, HTTP/2 streams, scripted lease service) on pager-simulator histories with lag, retention cuts, disconnects, restarts and primary changes; Lean spec predicates judge the implementation's own observations.",
        note="Trusted: Lean kernel; cluster model tied by correspondence; scripted lease service; no FUSE mount, so the kernel page cache / invalidation part of the statement is not exercised (partial); time bounds are protocol iterations, not wall-clock. One genuine defect (own-file skip) found and repaired in /repo (71ecab6).",
        technique="Lean 4 invariant proof by induction over protocol steps + convergence proof by measure + differential check of a byte-level cluster model against real multi-node clusters",
    ),
    "C06": dict(
        text="Lean 4 proofs that the primary's stream decision answers `snapshot` for every off-history relation (ahead, equal TXID with other checksum, gap, pre-checksum mismatch) and sends an incremental file only as the exact successor of the client's position; that in every reachable world of the unbounded protocol model an incremental file is only ever applied to a node holding the image the file was created from; and that a non-extending file is refused with the node unchanged (protocol level and byte-level engine model). The branch conditions of streamDB / streamLTX / processLTXStreamFrame are regenerated from the source and compared with the model's by a fact theorem. Real clusters with forks of every relation and a real replica offered wrong-TXID / wrong-checksum / stale / damaged-body files on both paths are compared with the models and judged by Lean spec predicates.",
        note="Trusted: Lean kernel; fact extractor; cluster and engine models tied by correspondence. One genuine defect (stream path applied a file before verifying it) found and repaired in /repo (1480a4e).",
        technique="Lean 4 decision-function theorems + reachable-world invariant + regenerated branch-condition facts + differential cluster and replica suites",
    ),
    "C19": dict(
        text="Lean 4 proofs over a model of the proxy's decision logic, for every request and every timeline of database positions: a read carrying a TXID >= 1 is forwarded only at a moment when the tracked database exists at or after that TXID and ends in a time-out otherwise; every non-passthrough write (any method but GET/HEAD, or an always-forward path) takes the non-read path, which reaches the local application only on the primary (redirect on a replica, error when no primary is known); the cookie read after the application answered is at or after the write. Branch conditions/actions of the four proxy functions are regenerated from the source and compared by a fact theorem; a real ProxyServer + recording application + real store is compared with the model and judged by Lean spec predicates across methods, path classes, cookie values, roles and replication timing.",
        note="Trusted: Lean kernel; proxy model tied by correspondence and regenerated facts; Go regexp/net/http. One genuine defect (reads with a cookie were forwarded at once when the database did not exist locally yet) found and repaired in /repo.",
        technique="Lean 4 theorems over a decision-logic model (all requests, all position timelines) + regenerated branch facts + differential suite on the real ProxyServer",
    ),
    "C20": dict(
        text="Lean 4 proofs over a model of the API's routing and per-handler validation order (regenerated from http/server.go on every run and compared by fact theorems): routing is total, refusals are error statuses, role gates (import / halt grant / stream only on the primary), a forwarded transaction proceeds only for the halt-lock holder, invalid database names never reach the store. The model, in front of engine-model databases, is compared with the real server on generated requests over all endpoints, methods, parameter and node-id shapes, both protocols and body classes in three roles; Lean spec predicates check that every request is answered and that every answered error left databases, log, locks and database set unchanged.",
        note="Trusted: Lean kernel; fact extractor; API model tied by correspondence. Five genuine defects found by this suite were repaired in /repo; one is recorded as an open known finding (POST /import of an unreadable image leaves a new empty database entry).",
        technique="Lean 4 theorems over a routing/validation model with regenerated tables + differential and before/after-state check of the real HTTP server",
    ),
    "C10": dict(
        text="Lean 4 proofs that (a) the small-step model of Export / WriteSnapshotTo performs exactly the guard calls and state captures of db.go in source order (fact regenerated from the source on every run), with the capture strictly inside the exclusive WAL-write-lock bracket and, for Export, no gap between that bracket and the read locks, (b) over the generated RWMutex code, for any lock table and any number of owners, a lock held shared by the snapshot cannot be taken exclusively by anyone else and the exclusively held write lock excludes every other owner, (c) a snapshot passing its checksum self-check is the image of its reported position under an explicit collision-freedom hypothesis; plus a schedule-exploring differential suite that suspends the real functions at every lock call and runs commits, checkpoints, WAL restarts, truncations and drops in the window, judged by the Lean spec (bytes = image of the reported position).",
        note="Trusted: Lean kernel; fact extractor; small-step model tied by the snapsched suite; suspension at lock-call granularity. One genuine defect (Export's lock window) was found by this suite and repaired in /repo (068dfa9).",
        technique="Lean 4 theorems over regenerated lock-order facts and generated RWMutex code + schedule-enumerating differential suite on the real Export/WriteSnapshotTo",
    ),
    "C11": dict(
        text="Lean 4 proofs, for every well-formed lock table (any number of owners), that LiteFS's internal write lock, once granted, holds every lock of its rollback/WAL plan, excludes every other owner from those locks (none holds one, none can obtain one), is never granted while an older owner holds one, and that the checkpoint gate and the WAL-write guard behave as stated; the lock plan is regenerated from db.go (fact theorem) and the real lock table is compared with model and POSIX spec on protocol-following and random histories.",
        note="Trusted: Lean kernel; fact extractor; lock-table model tied by correspondence; call-level atomicity of TryLocks.",
        technique="Lean 4 exclusion theorems over generated RWMutex code + regenerated lock plan + differential lock-table suite",
    ),
    "C17": dict(
        text="Lean 4 proofs over definitions regenerated from db.go that the next journal header offset is the least sector multiple at or after the current offset, and over the journal-reader model that, for arbitrary bytes, Next never divides by zero and every accepted header / frame advances the offset (termination), with rollback restoring the pre-image at image level; differential restarts of the real store on interrupted, damaged and random journals, WALs and databases against the byte-level recovery model, plus the exhaustive crash-point suite.",
        note="Trusted: Lean kernel; translator for integer helpers; byte-level reader models tied by correspondence; the WAL valid-prefix rule is cross-checked by three independent implementations rather than proved.",
        technique="Lean 4 theorems over regenerated integer helpers and the journal-reader model + differential restart suite on damaged and random files",
    ),
}
