HOOK_COMMITS = []
PENDING_REASON = {}
META = {
    "C12": dict(
        text="Machine-checked proof (Lean 4, unbounded owners and op sequences) that the five guard methods of rwmutex.go, regenerated from the source on every run, refine POSIX reader/writer lock rules, preserve the holder/counter invariant, never hit an assert, leave state unchanged on failure and answer queries consistently; plus exhaustive BFS of the real type (1..4 owners) against model and spec. This is the right level because the property quantifies over all op sequences and the code is a small pure state machine.",
        note="Trusted: Lean kernel; the go/ast translator (cross-checked by the BFS correspondence on the real type); sync.Mutex atomicity of each method; blocking variants only as an abstract tick loop (C12_blocking_partial).",
        technique="Lean 4 invariant + refinement proof over definitions regenerated from rwmutex.go; exhaustive differential check of the real type",
    ),
}
