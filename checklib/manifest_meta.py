HOOK_COMMITS = []
PENDING_REASON = {}
META = {
    "C12": dict(
        text="Machine-checked proof (Lean 4, unbounded owners and op sequences) that the five guard methods of rwmutex.go, regenerated from the source on every run, refine POSIX reader/writer lock rules, preserve the holder/counter invariant, never hit an assert, leave state unchanged on failure and answer queries consistently; plus exhaustive BFS of the real type (1..4 owners) against model and spec. This is the right level because the property quantifies over all op sequences and the code is a small pure state machine.",
        note="Trusted: Lean kernel; the go/ast translator (cross-checked by the BFS correspondence on the real type); sync.Mutex atomicity of each method; blocking variants only as an abstract tick loop (C12_blocking_partial).",
        technique="Lean 4 invariant + refinement proof over definitions regenerated from rwmutex.go; exhaustive differential check of the real type",
    ),
    "C18": dict(
        text="Machine-checked proofs (Lean 4, all frame values, all byte strings, unbounded lengths) of round trip, every-proper-prefix-is-an-error (ErrUnexpectedEOF except the empty prefix of a frame), decode soundness on arbitrary bytes (a successful decode consumed exactly the encoding of the value returned) and writer chunk-size bounds, for models of the stream-frame, position-map and chunked-body codecs; the models are compared with the real codecs on generated inputs (all types, lengths around 65535, every prefix, garbage, hostile length prefixes, three read-split modes) and allocation is measured.",
        note="Trusted: Lean kernel; hand-written codec model (correspondence-checked); Go's io.ReadFull/binary.Read/io.CopyN; allocation measured via runtime.MemStats; split-independence is by io.ReadFull (exercised with 3 split modes, not proved).",
        technique="Lean 4 parser-combinator model with generic encoding/prefix lemmas; differential check against the real codecs",
    ),
}
