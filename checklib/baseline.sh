#!/bin/sh
# Runs /repo's test suite with the verif guard OFF and compares with BASELINE.json's stable_pass.
export GOFLAGS=-mod=mod GOPROXY=off GOSUMDB=off GOTOOLCHAIN=local
cd /repo && go test -json -vet=off -count=1 -timeout 25m ./... 2>/dev/null > /tmp/verif-base.json
python3 - <<'PY'
import json,sys
base=json.load(open('/root/.vp/BASELINE.json'))['stable_pass']
res={}
for l in open('/tmp/verif-base.json'):
    try: e=json.loads(l)
    except Exception: continue
    if e.get('Test') and e.get('Action') in('pass','fail','skip'):
        res[e['Package']+'::'+e['Test']]=e['Action']
missing=[t for t in base if res.get(t)!='pass']
print('pass',sum(1 for v in res.values() if v=='pass'),'of baseline',len(base),'missing',missing)
sys.exit(1 if missing else 0)
PY
